#!/bin/sh
# usage: check.sh <ID> <quick|thorough>   run one property check (rebuilds from /repo's working tree)
#        check.sh replay <file>           re-run a replay file
#        check.sh setup                   build both profiles and run the determinism self-test
#        check.sh selftest                determinism self-test only
# env: VERIF_SEED (default 1), VERIF_TIER, VERIF_JOBS (default: all cores), VERIF_RUNS, VERIF_BUDGET_S
set -u
HERE=$(cd "$(dirname "$0")" && pwd)
SIM="$HERE/sim"
export CARGO_NET_OFFLINE=true
SHIP="$SIM/target/ship/tftpd-sim"
CHK="$SIM/target/chk/tftpd-sim"

build() {
    # hooks on: sim/.cargo/config.toml passes --cfg rs_tftpd_verif to every crate, /repo is a path dependency
    ( cd "$SIM" && cargo build --offline --profile ship >"$SIM/build-ship.log" 2>&1 ) || { echo "HARNESS-ERROR: ship build failed"; tail -30 "$SIM/build-ship.log"; exit 2; }
    ( cd "$SIM" && cargo build --offline --profile chk >"$SIM/build-chk.log" 2>&1 ) || { echo "HARNESS-ERROR: chk build failed"; tail -30 "$SIM/build-chk.log"; exit 2; }
}

level_of() {
    case "$1" in
        C01|C02|C04|C05|C07|C08|C13|C15) echo fault_enumeration ;;
        *) echo exploration ;;
    esac
}

runs_of() { # <ID> <tier>; thorough runs are additionally bounded by the time budget
    case "$2:$1" in
        quick:C15) echo 160 ;;
        quick:C16) echo 60000 ;;
        quick:C12) echo 120000 ;;
        quick:C14) echo 160000 ;;
        quick:C03|quick:C06|quick:C05|quick:C09|quick:C13) echo 200000 ;;
        quick:C07) echo 440000 ;;
        quick:C01) echo 240000 ;;
        quick:*) echo 300000 ;;
        thorough:C15) echo 4000 ;;
        thorough:*) echo 40000000 ;;
    esac
}

cmd="${1:-}"
case "$cmd" in
    setup)
        build
        "$SHIP" selftest --runs 240 || { echo "HARNESS-ERROR: determinism self-test failed (ship)"; exit 2; }
        "$CHK" selftest --runs 240 || { echo "HARNESS-ERROR: determinism self-test failed (chk)"; exit 2; }
        exit 0 ;;
    selftest)
        build
        "$SHIP" selftest --runs "${VERIF_RUNS:-2000}" && "$CHK" selftest --runs "${VERIF_RUNS:-2000}"
        exit $? ;;
    replay)
        build
        TFTPD_SIM_SHIP="$SHIP" TFTPD_SIM_CHK="$CHK" "$SHIP" replay "$2"
        exit $? ;;
    C[0-9][0-9])
        id="$cmd"
        tier="${2:-${VERIF_TIER:-quick}}"
        build
        runs="${VERIF_RUNS:-$(runs_of "$id" "$tier")}"
        if [ "$tier" = thorough ]; then budget="${VERIF_BUDGET_S:-420}"; else budget="${VERIF_BUDGET_S:-240}"; fi
        mkdir -p "$HERE/evidence" "$HERE/replays"
        "$SHIP" check "$id" --tier "$tier" --runs "$runs" --seed "${VERIF_SEED:-1}" --jobs "${VERIF_JOBS:-$(nproc)}" \
            --budget-s "$budget" --ship "$SHIP" --chk "$CHK" --replay-dir "$HERE/replays" \
            --evidence "$HERE/evidence/$id.json" --known "$HERE/known_findings.json" --level "$(level_of "$id")"
        exit $? ;;
    *)
        echo "usage: check.sh <ID> <quick|thorough> | replay <file> | setup | selftest"; exit 2 ;;
esac
