//! Process model: `check` (parent) forks one worker process per core; workers run seeds
//! sequentially and stream aggregates; violations become minimised replay files.
use crate::choice::{fnv, mix, run_seed, Choices};
use crate::json::{self, J};
use crate::run::{self, Outcome};
use crate::scen::Tier;
use crate::world::Violation;
use std::collections::{BTreeMap, BTreeSet};
use std::io::{BufRead, BufReader, Write};
use std::path::{Path, PathBuf};
use std::process::{Command, Stdio};
use std::time::{Duration, Instant};

pub fn profile_name() -> &'static str {
    if cfg!(debug_assertions) {
        "chk"
    } else {
        "ship"
    }
}

pub fn profile_of_run(r: u64) -> &'static str {
    if r % 4 == 3 {
        "chk"
    } else {
        "ship"
    }
}

pub fn tier_name(t: Tier) -> &'static str {
    match t {
        Tier::Quick => "quick",
        Tier::Thorough => "thorough",
    }
}

pub fn parse_tier(s: &str) -> Tier {
    if s == "thorough" {
        Tier::Thorough
    } else {
        Tier::Quick
    }
}

fn trace_hash(tr: &[String]) -> u64 {
    let mut h = 0u64;
    for l in tr {
        h = mix(h, fnv(l.as_bytes()));
    }
    h
}

pub fn fingerprint(o: &Outcome) -> u64 {
    let mut h = mix(o.stats.shape, o.stats.steps);
    h = mix(h, o.sim_ns);
    for (s, v) in &o.choices {
        h = mix(h, fnv(s.as_bytes()) ^ (*v as u64));
    }
    if let Some(v) = &o.violation {
        h = mix(h, fnv(v.rule.as_bytes()));
    }
    if let Some(t) = &o.trace {
        h = mix(h, trace_hash(t));
    }
    h
}

// ------------------------------------------------------------------------------------------
// shrinking
// ------------------------------------------------------------------------------------------

fn same_violation(o: &Outcome, rule: &str, sig: &BTreeMap<String, String>) -> bool {
    match &o.violation {
        Some(v) => v.rule == rule && v.signature == *sig && o.harness_error.is_none(),
        None => false,
    }
}

/// Minimises a failing choice list: truncate, zero entries, delete blocks, lower values; a
/// candidate is kept iff the same rule (and signature) fires. Works on the list only.
pub fn shrink(prop: &'static str, tier: Tier, start: Vec<u32>, rule: &str, sig: &BTreeMap<String, String>, max_exec: usize, max_time: Duration) -> (Vec<u32>, usize) {
    let t0 = Instant::now();
    let mut best = start;
    let mut execs = 0usize;
    let mut try_cand = |cand: Vec<u32>, best: &mut Vec<u32>, execs: &mut usize| -> bool {
        if *execs >= max_exec || t0.elapsed() > max_time {
            return false;
        }
        *execs += 1;
        let o = run::execute(prop, tier, Choices::replay(cand, None), false);
        if same_violation(&o, rule, sig) {
            let canon: Vec<u32> = o.choices.iter().map(|c| c.1).collect();
            // strip trailing zeros: past the end a replay draws 0 anyway
            let mut canon = canon;
            while canon.last() == Some(&0) {
                canon.pop();
            }
            if canon.len() < best.len() || (canon.len() == best.len() && canon < *best) {
                *best = canon;
                return true;
            }
        }
        false
    };
    while best.last() == Some(&0) {
        best.pop();
    }
    let mut progress = true;
    while progress && execs < max_exec && t0.elapsed() < max_time {
        progress = false;
        // 1. truncate the tail
        let mut cut = best.len() / 2;
        while cut >= 1 {
            if best.len() > cut {
                let cand = best[..best.len() - cut].to_vec();
                if try_cand(cand, &mut best, &mut execs) {
                    progress = true;
                    continue;
                }
            }
            cut /= 2;
        }
        // 2. zero single entries (remove one fault / default schedule / simplest swarm value)
        let mut i = best.len();
        while i > 0 {
            i -= 1;
            if i < best.len() && best[i] != 0 {
                let mut cand = best.clone();
                cand[i] = 0;
                if try_cand(cand, &mut best, &mut execs) {
                    progress = true;
                }
            }
        }
        // 3. delete blocks
        for size in [8usize, 4, 2, 1] {
            let mut i = 0;
            while i + size <= best.len() {
                let mut cand = best.clone();
                cand.drain(i..i + size);
                if !try_cand(cand, &mut best, &mut execs) {
                    i += size;
                } else {
                    progress = true;
                }
            }
        }
        // 4. lower values
        let mut i = 0;
        while i < best.len() {
            if best[i] > 1 {
                let mut cand = best.clone();
                cand[i] /= 2;
                if try_cand(cand, &mut best, &mut execs) {
                    progress = true;
                    continue;
                }
                let mut cand = best.clone();
                cand[i] -= 1;
                if try_cand(cand, &mut best, &mut execs) {
                    progress = true;
                    continue;
                }
            }
            i += 1;
        }
    }
    (best, execs)
}

// ------------------------------------------------------------------------------------------
// replay files
// ------------------------------------------------------------------------------------------

fn sig_json(sig: &BTreeMap<String, String>) -> J {
    let mut o = J::obj();
    for (k, v) in sig {
        o.set(k, J::s(v.clone()));
    }
    o
}

pub fn write_replay(dir: &Path, prop: &str, tier: Tier, seed: u64, runno: u64, v: &Violation, orig_len: usize, o: &Outcome, shrink_execs: usize) -> PathBuf {
    let _ = std::fs::create_dir_all(dir);
    let tag = fnv(format!("{}{:?}", v.rule, v.signature).as_bytes()) % 0xffff;
    let path = dir.join(format!("{prop}-{}-s{seed}-r{runno}-{tag:04x}.json", profile_name()));
    let choices = J::Arr(o.choices.iter().map(|(s, x)| J::Arr(vec![J::s(*s), J::i(*x as i64)])).collect());
    let trace: Vec<J> = o.trace.as_ref().map(|t| t.iter().map(|l| J::s(l.clone())).collect()).unwrap_or_default();
    let j = J::obj()
        .with("property", J::s(prop))
        .with("rule", J::s(v.rule.clone()))
        .with("detail", J::s(v.detail.clone()))
        .with("signature", sig_json(&v.signature))
        .with("profile", J::s(profile_name()))
        .with("tier", J::s(tier_name(tier)))
        .with("verif_seed", J::i(seed as i64))
        .with("run", J::i(runno as i64))
        .with("scenario", J::s(o.desc.clone()))
        .with("original_choice_count", J::i(orig_len as i64))
        .with("shrink_executions", J::i(shrink_execs as i64))
        .with("minimised", choices)
        .with("trace_hash", J::s(format!("{:016x}", o.trace.as_ref().map(|t| trace_hash(t)).unwrap_or(0))))
        .with("violation_at_event", J::i(v.at_seq as i64))
        .with("trace", J::Arr(trace));
    let _ = std::fs::write(&path, j.dump());
    path
}

pub fn write_crash_replay(dir: &Path, prop: &str, tier: Tier, seed: u64, runno: u64, profile: &str, status: &str, kind: &str) -> PathBuf {
    let _ = std::fs::create_dir_all(dir);
    let path = dir.join(format!("{prop}-{profile}-s{seed}-r{runno}-{}.json", if kind == "task_stuck" { "stuck" } else { "abort" }));
    // what the run was about: its scenario and swarm choices (built in a child, not executed)
    let me = std::env::current_exe().ok();
    let described = me.and_then(|m| Command::new(m).args(["describe", prop, "--tier", tier_name(tier), "--seed", &seed.to_string(), "--run", &runno.to_string()]).output().ok()).map(|o| String::from_utf8_lossy(&o.stdout).into_owned()).unwrap_or_default();
    let mut lines = described.lines();
    let scenario = lines.next().unwrap_or("").to_string();
    let swarm = lines.next().unwrap_or("").to_string();
    let j = J::obj()
        .with("property", J::s(prop))
        .with("rule", J::s(format!("{prop}.{kind}")))
        .with("detail", J::s(if kind == "task_stuck" { format!("a thread of the code under test was released and never reached its next scheduling point within {} s of real time: it blocks outside the simulation or spins ({status})", crate::world::stuck_limit_s()) } else { format!("the process running the server died during this run ({status})") }))
        .with("signature", J::obj().with("kind", J::s(kind)))
        .with("profile", J::s(profile))
        .with("tier", J::s(tier_name(tier)))
        .with("verif_seed", J::i(seed as i64))
        .with("run", J::i(runno as i64))
        .with("scenario", J::s(scenario))
        .with("swarm_choices", J::s(swarm))
        .with("crash", J::Bool(true));
    let _ = std::fs::write(&path, j.dump());
    path
}

// ------------------------------------------------------------------------------------------
// worker process
// ------------------------------------------------------------------------------------------

#[derive(Default)]
struct Agg {
    runs: u64,
    nontrivial_shapes: BTreeSet<u64>,
    all_shapes: BTreeSet<u64>,
    states: BTreeSet<u64>,
    faults: BTreeMap<String, u64>,
    probes: BTreeMap<String, u64>,
    sim_ns: u128,
    steps: u64,
    handoffs: u64,
    sched: u64,
    datagrams: u64,
    faultfree_runs: u64,
    fault_runs: u64,
    inconclusive: u64,
    samples: Vec<J>,
    ends: BTreeMap<String, u64>,
}

impl Agg {
    fn add(&mut self, r: u64, o: &Outcome) {
        self.runs += 1;
        self.all_shapes.insert(o.stats.shape);
        let fired = o.stats.faults_fired();
        let nontrivial = o.stats.datagrams >= 2 && (fired > 0 || o.faultfree);
        if nontrivial {
            self.nontrivial_shapes.insert(o.stats.shape);
        }
        for s in &o.states {
            self.states.insert(*s);
        }
        for (k, v) in &o.stats.faults {
            *self.faults.entry(k.to_string()).or_insert(0) += v;
        }
        for (k, v) in &o.probes {
            *self.probes.entry(k.to_string()).or_insert(0) += v;
        }
        self.sim_ns += o.sim_ns as u128;
        self.steps += o.stats.steps;
        self.handoffs += o.stats.handoffs;
        self.sched += o.stats.sched_decisions;
        self.datagrams += o.stats.datagrams;
        if fired > 0 {
            self.fault_runs += 1;
        } else {
            self.faultfree_runs += 1;
        }
        if o.inconclusive {
            self.inconclusive += 1;
        }
        *self.ends.entry(format!("{:?}", o.end)).or_insert(0) += 1;
        if self.samples.len() < 2 && fired > 0 {
            self.samples.push(
                J::obj()
                    .with("run", J::i(r as i64))
                    .with("scenario", J::s(o.desc.clone()))
                    .with("faults_fired", J::Obj(o.stats.faults.iter().map(|(k, v)| (k.to_string(), J::i(*v as i64))).collect()))
                    .with("events", J::i(o.stats.steps as i64))
                    .with("sim_seconds", J::Num(o.sim_ns as f64 / 1e9)),
            );
        }
    }

    fn flush(&mut self) -> J {
        let a = std::mem::take(self);
        let hexs = |s: &BTreeSet<u64>| J::Arr(s.iter().map(|h| J::s(format!("{h:x}"))).collect());
        let m = |s: &BTreeMap<String, u64>| J::Obj(s.iter().map(|(k, v)| (k.clone(), J::i(*v as i64))).collect());
        J::obj()
            .with("runs", J::i(a.runs as i64))
            .with("nt_shapes", hexs(&a.nontrivial_shapes))
            .with("shapes", hexs(&a.all_shapes))
            .with("states", hexs(&a.states))
            .with("faults", m(&a.faults))
            .with("probes", m(&a.probes))
            .with("ends", m(&a.ends))
            .with("sim_ns", J::s(a.sim_ns.to_string()))
            .with("steps", J::i(a.steps as i64))
            .with("handoffs", J::i(a.handoffs as i64))
            .with("sched", J::i(a.sched as i64))
            .with("datagrams", J::i(a.datagrams as i64))
            .with("faultfree_runs", J::i(a.faultfree_runs as i64))
            .with("fault_runs", J::i(a.fault_runs as i64))
            .with("inconclusive", J::i(a.inconclusive as i64))
            .with("samples", J::Arr(a.samples))
    }
}

pub struct WorkerArgs {
    pub prop: &'static str,
    pub tier: Tier,
    pub seed: u64,
    pub start: u64,
    pub stride: u64,
    pub end: u64,
    pub deadline_s: f64,
    pub replay_dir: PathBuf,
    pub want_trace_sample: bool,
}

/// Child process main loop. Protocol on `out`: `B <run>` before each run, `A <json>`
/// aggregate deltas, `V <json>` violations, `H <text>` harness errors, `D` when done.
pub fn worker(a: WorkerArgs, out: &mut dyn Write) {
    let t0 = Instant::now();
    let mut agg = Agg::default();
    let mut last_flush = Instant::now();
    let mut reported: BTreeSet<String> = BTreeSet::new();
    let mut r = a.start;
    let mut sample_trace_done = !a.want_trace_sample;
    while r < a.end {
        if t0.elapsed().as_secs_f64() > a.deadline_s {
            break;
        }
        if profile_of_run(r) != profile_name() {
            r += a.stride;
            continue;
        }
        let _ = writeln!(out, "B {r}");
        let _ = out.flush();
        let o = run::execute(a.prop, a.tier, Choices::search_run(run_seed(a.seed, a.prop, r), r), false);
        if let Some(e) = &o.harness_error {
            let _ = writeln!(out, "H run {r}: {e}");
        }
        agg.add(r, &o);
        if let Some(v) = &o.violation {
            let key = format!("{}|{:?}", v.rule, v.signature);
            if !reported.contains(&key) {
                reported.insert(key);
                let start: Vec<u32> = o.choices.iter().map(|c| c.1).collect();
                let orig_len = start.len();
                let (min, execs) = if reported.len() <= 6 {
                    shrink(a.prop, a.tier, start, &v.rule, &v.signature, 600, Duration::from_secs(20))
                } else {
                    (start, 0)
                };
                // final run of the minimised list with the trace on
                let o2 = run::execute(a.prop, a.tier, Choices::replay(min.clone(), None), true);
                let (vv, oo) = match &o2.violation {
                    Some(v2) if v2.rule == v.rule => (v2.clone(), &o2),
                    _ => (v.clone(), &o),
                };
                let path = write_replay(&a.replay_dir, a.prop, a.tier, a.seed, r, &vv, orig_len, oo, execs);
                let j = J::obj()
                    .with("run", J::i(r as i64))
                    .with("rule", J::s(vv.rule.clone()))
                    .with("detail", J::s(vv.detail.clone()))
                    .with("signature", sig_json(&vv.signature))
                    .with("replay", J::s(path.to_string_lossy().into_owned()))
                    .with("profile", J::s(profile_name()))
                    .with("choices", J::i(oo.choices.len() as i64))
                    .with("original_choices", J::i(orig_len as i64));
                let _ = writeln!(out, "V {}", j.compact());
                let _ = out.flush();
            }
        } else if !sample_trace_done && o.stats.faults_fired() > 0 && o.stats.steps < 400 {
            // one written-out history for the evidence file
            let o2 = run::execute(a.prop, a.tier, Choices::replay(o.choices.iter().map(|c| c.1).collect(), None), true);
            if let Some(t) = &o2.trace {
                let j = J::obj().with("run", J::i(r as i64)).with("scenario", J::s(o2.desc.clone())).with("history", J::Arr(t.iter().map(|l| J::s(l.clone())).collect()));
                let _ = writeln!(out, "T {}", j.compact());
                sample_trace_done = true;
            }
        }
        if agg.runs >= 500 || last_flush.elapsed() > Duration::from_secs(2) {
            let _ = writeln!(out, "A {}", agg.flush().compact());
            let _ = out.flush();
            last_flush = Instant::now();
        }
        r += a.stride;
    }
    let _ = writeln!(out, "A {}", agg.flush().compact());
    let _ = writeln!(out, "D {}", if r >= a.end { "complete" } else { "deadline" });
    let _ = out.flush();
    crate::common::cleanup_process_sandbox();
}

// ------------------------------------------------------------------------------------------
// parent
// ------------------------------------------------------------------------------------------

#[derive(Clone, Debug)]
pub struct Known {
    pub property: String,
    pub rule: String,
    pub signature: BTreeMap<String, String>,
    pub status: String,
    pub text: String,
}

pub fn load_known(path: &Path) -> Vec<Known> {
    let mut out = vec![];
    let s = match std::fs::read_to_string(path) {
        Ok(s) => s,
        Err(_) => return out,
    };
    let j = match json::parse(&s) {
        Ok(j) => j,
        Err(e) => {
            eprintln!("known findings file unreadable: {e}");
            std::process::exit(2);
        }
    };
    let arr = j.get("findings").and_then(|a| a.as_arr()).cloned().or_else(|| j.as_arr().cloned()).unwrap_or_default();
    for e in arr {
        let mut sig = BTreeMap::new();
        if let Some(J::Obj(m)) = e.get("signature") {
            for (k, v) in m {
                sig.insert(k.clone(), v.as_str().unwrap_or("").to_string());
            }
        }
        out.push(Known {
            property: e.get("property").and_then(|x| x.as_str()).unwrap_or("").to_string(),
            rule: e.get("rule").and_then(|x| x.as_str()).unwrap_or("").to_string(),
            signature: sig,
            status: e.get("status").and_then(|x| x.as_str()).unwrap_or("").to_string(),
            text: e.get("text").and_then(|x| x.as_str()).unwrap_or("").to_string(),
        });
    }
    out
}

fn matches_known(k: &Known, prop: &str, rule: &str, sig: &BTreeMap<String, String>) -> bool {
    k.status == "open" && k.property == prop && k.rule == rule && k.signature.iter().all(|(key, v)| sig.get(key) == Some(v)) && !k.signature.is_empty()
}

pub struct CheckArgs {
    pub prop: &'static str,
    pub tier: Tier,
    pub seed: u64,
    pub jobs: u64,
    pub runs: u64,
    pub budget_s: f64,
    pub ship: PathBuf,
    pub chk: PathBuf,
    pub replay_dir: PathBuf,
    pub evidence: PathBuf,
    pub known: PathBuf,
    pub level: String,
}

struct Total {
    runs: u64,
    nt_shapes: BTreeSet<String>,
    shapes: BTreeSet<String>,
    states: BTreeSet<String>,
    faults: BTreeMap<String, i64>,
    probes: BTreeMap<String, i64>,
    ends: BTreeMap<String, i64>,
    sim_ns: u128,
    ints: BTreeMap<String, i64>,
    samples: Vec<J>,
    history_sample: Option<J>,
}

fn merge_map(dst: &mut BTreeMap<String, i64>, src: Option<&J>) {
    if let Some(J::Obj(m)) = src {
        for (k, v) in m {
            *dst.entry(k.clone()).or_insert(0) += v.as_i64().unwrap_or(0);
        }
    }
}

pub fn check(a: CheckArgs) -> i32 {
    let t0 = Instant::now();
    let known = load_known(&a.known);
    let _ = std::fs::create_dir_all(&a.replay_dir);
    // remove stale replay files of this property and tier
    if let Ok(rd) = std::fs::read_dir(&a.replay_dir) {
        for e in rd.flatten() {
            let n = e.file_name().to_string_lossy().into_owned();
            if n.starts_with(&format!("{}-", a.prop)) {
                let _ = std::fs::remove_file(e.path());
            }
        }
    }
    let (tx, rx) = std::sync::mpsc::channel::<(u64, String)>();
    let mut handles = vec![];
    let spawn_child = |j: u64, start: u64, tx: std::sync::mpsc::Sender<(u64, String)>, a: &CheckArgs, want_trace: bool| {
        let bin = if profile_of_run(start) == "chk" { a.chk.clone() } else { a.ship.clone() };
        let mut cmd = Command::new(bin);
        cmd.arg("worker")
            .arg(a.prop)
            .arg("--tier")
            .arg(tier_name(a.tier))
            .arg("--seed")
            .arg(a.seed.to_string())
            .arg("--start")
            .arg(start.to_string())
            .arg("--stride")
            .arg(a.jobs.to_string())
            .arg("--end")
            .arg(a.runs.to_string())
            .arg("--deadline-s")
            .arg(format!("{}", (a.budget_s - t0.elapsed().as_secs_f64()).max(1.0)))
            .arg("--replay-dir")
            .arg(&a.replay_dir);
        if want_trace {
            cmd.arg("--trace-sample");
        }
        cmd.stdin(Stdio::null()).stdout(Stdio::piped()).stderr(Stdio::null());
        let mut child = cmd.spawn().expect("spawn worker");
        let so = child.stdout.take().unwrap();
        let pid = child.id();
        std::thread::spawn(move || {
            let rd = BufReader::new(so);
            for line in rd.lines().map_while(Result::ok) {
                let _ = tx.send((j, line));
            }
            let st = child.wait();
            // a child that died or was stopped leaves its sandbox behind
            crate::common::remove_sandbox_of(pid);
            let _ = tx.send((j, format!("X {}", st.map(|s| format!("{s}")).unwrap_or_else(|e| e.to_string()))));
        })
    };
    // jobs must be a multiple of 4 so that each child sees a single profile
    let jobs = ((a.jobs + 3) / 4 * 4).max(4);
    let a = CheckArgs { jobs, ..a };
    for j in 0..a.jobs {
        handles.push(spawn_child(j, j, tx.clone(), &a, j == 0 || j == 3));
    }
    let mut live = a.jobs;
    let mut last_b: BTreeMap<u64, u64> = BTreeMap::new();
    let mut done: BTreeMap<u64, bool> = BTreeMap::new();
    let mut tot = Total {
        runs: 0,
        nt_shapes: Default::default(),
        shapes: Default::default(),
        states: Default::default(),
        faults: Default::default(),
        probes: Default::default(),
        ends: Default::default(),
        sim_ns: 0,
        ints: Default::default(),
        samples: vec![],
        history_sample: None,
    };
    let mut violations: Vec<J> = vec![];
    let mut seen_viol: BTreeSet<String> = BTreeSet::new();
    let mut known_hit: BTreeSet<String> = BTreeSet::new();
    let mut harness_errors: Vec<String> = vec![];
    let mut crashes = 0u64;
    let mut restarts: BTreeMap<u64, u32> = BTreeMap::new();
    while live > 0 {
        let (j, line) = match rx.recv() {
            Ok(x) => x,
            Err(_) => break,
        };
        let (tag, rest) = line.split_at(line.len().min(2));
        match tag.trim() {
            "B" => {
                last_b.insert(j, rest.trim().parse().unwrap_or(0));
            }
            "A" => {
                if let Ok(v) = json::parse(rest) {
                    tot.runs += v.get("runs").and_then(|x| x.as_i64()).unwrap_or(0) as u64;
                    for (key, set) in [("nt_shapes", &mut tot.nt_shapes), ("shapes", &mut tot.shapes), ("states", &mut tot.states)] {
                        if let Some(arr) = v.get(key).and_then(|x| x.as_arr()) {
                            for h in arr {
                                if let Some(s) = h.as_str() {
                                    set.insert(s.to_string());
                                }
                            }
                        }
                    }
                    merge_map(&mut tot.faults, v.get("faults"));
                    merge_map(&mut tot.probes, v.get("probes"));
                    merge_map(&mut tot.ends, v.get("ends"));
                    tot.sim_ns += v.get("sim_ns").and_then(|x| x.as_str()).and_then(|s| s.parse::<u128>().ok()).unwrap_or(0);
                    for k in ["steps", "handoffs", "sched", "datagrams", "faultfree_runs", "fault_runs", "inconclusive"] {
                        *tot.ints.entry(k.to_string()).or_insert(0) += v.get(k).and_then(|x| x.as_i64()).unwrap_or(0);
                    }
                    if tot.samples.len() < 4 {
                        if let Some(arr) = v.get("samples").and_then(|x| x.as_arr()) {
                            for s in arr.iter().take(2) {
                                tot.samples.push(s.clone());
                            }
                        }
                    }
                }
            }
            "T" => {
                if tot.history_sample.is_none() {
                    tot.history_sample = json::parse(rest).ok();
                }
            }
            "V" => {
                if let Ok(v) = json::parse(rest) {
                    let rule = v.get("rule").and_then(|x| x.as_str()).unwrap_or("").to_string();
                    let mut sig = BTreeMap::new();
                    if let Some(J::Obj(m)) = v.get("signature") {
                        for (k, val) in m {
                            sig.insert(k.clone(), val.as_str().unwrap_or("").to_string());
                        }
                    }
                    let key = format!("{rule}|{sig:?}");
                    let replay = v.get("replay").and_then(|x| x.as_str()).unwrap_or("").to_string();
                    if let Some(k) = known.iter().find(|k| matches_known(k, a.prop, &rule, &sig)) {
                        if known_hit.insert(key.clone()) {
                            println!("KNOWN-FINDING: property={} rule={} signature={:?} replay={} :: {}", a.prop, rule, sig, replay, k.text);
                        }
                    } else if seen_viol.insert(key) {
                        println!("VIOLATION property={} replay={}", a.prop, replay);
                        println!("  rule={} profile={} run={} :: {}", rule, v.get("profile").and_then(|x| x.as_str()).unwrap_or(""), v.get("run").and_then(|x| x.as_i64()).unwrap_or(0), v.get("detail").and_then(|x| x.as_str()).unwrap_or(""));
                        violations.push(v);
                    }
                }
            }
            "H" => harness_errors.push(rest.to_string()),
            "D" => {
                done.insert(j, true);
            }
            "X" => {
                if done.get(&j).copied().unwrap_or(false) {
                    live -= 1;
                } else if rest.contains("exit status: 70") {
                    // the harness itself panicked (see /dev/shm/tftpd-sim-harness-panics.log): never a verdict
                    harness_errors.push(format!("worker {j} hit a harness panic in run {}", last_b.get(&j).copied().unwrap_or(j)));
                    live -= 1;
                } else {
                    // the child died in the middle of a run: that is a finding of its own
                    let r = last_b.get(&j).copied().unwrap_or(j);
                    crashes += 1;
                    let prof = profile_of_run(r);
                    // exit 71: a thread of the code under test never came back to a scheduling point
                    let kind = if rest.contains("exit status: 71") { "task_stuck" } else { "process_abort" };
                    let path = write_crash_replay(&a.replay_dir, a.prop, a.tier, a.seed, r, prof, rest.trim(), kind);
                    let key = format!("{}.{kind}", a.prop);
                    let mut sig = BTreeMap::new();
                    sig.insert("kind".to_string(), kind.to_string());
                    if let Some(k) = known.iter().find(|k| matches_known(k, a.prop, &key, &sig)) {
                        if known_hit.insert(key.clone()) {
                            println!("KNOWN-FINDING: property={} rule={} replay={} :: {}", a.prop, key, path.display(), k.text);
                        }
                    } else if seen_viol.insert(key.clone()) {
                        println!("VIOLATION property={} replay={}", a.prop, path.display());
                        println!("  rule={key} profile={prof} run={r} :: {} ({})", if kind == "task_stuck" { "a thread of the code under test hangs or spins" } else { "worker process died" }, rest.trim());
                        violations.push(J::obj().with("rule", J::s(key)).with("run", J::i(r as i64)).with("replay", J::s(path.to_string_lossy().into_owned())));
                    }
                    tot.runs += 1;
                    let n = restarts.entry(j).or_insert(0);
                    *n += 1;
                    // a hang costs a minute of real time each: after the finding is made, do not keep paying for it
                    let cap = if kind == "task_stuck" { 1 } else { 50 };
                    if *n <= cap && r + a.jobs < a.runs && t0.elapsed().as_secs_f64() < a.budget_s {
                        handles.push(spawn_child(j, r + a.jobs, tx.clone(), &a, false));
                    } else {
                        live -= 1;
                    }
                }
            }
            _ => {}
        }
    }
    for h in handles {
        let _ = h.join();
    }
    let wall = t0.elapsed().as_secs_f64();
    // evidence
    let sim_s = tot.sim_ns as f64 / 1e9;
    let mut samples = tot.samples.clone();
    if let Some(h) = tot.history_sample.clone() {
        samples.insert(0, h);
    }
    if samples.is_empty() {
        samples.push(J::s("no sample collected"));
    }
    let m = |s: &BTreeMap<String, i64>| J::Obj(s.iter().map(|(k, v)| (k.clone(), J::Int(*v))).collect());
    let zero_probes: Vec<J> = expected_probes(a.prop).iter().filter(|p| tot.probes.get(**p).copied().unwrap_or(0) == 0).map(|p| J::s(*p)).collect();
    let cov = J::obj()
        .with("evaluations", J::i(tot.runs as i64))
        .with("distinct_nontrivial", J::i(tot.nt_shapes.len() as i64))
        .with(
            "rule",
            J::s("one evaluation = one simulated run (seeded scenario + schedule + fault sequence) of the real server code; distinct = distinct trace-shape hash (sequence of actor kind, packet opcode, block number, fate, receive outcome, task end/panic, fs point); non-trivial = at least two datagrams exchanged and either at least one fault/adversarial action actually fired or the run belongs to the fault-free stratum"),
        )
        .with("samples", J::Arr(samples))
        .with("distinct_trace_shapes_all", J::i(tot.shapes.len() as i64))
        .with("distinct_abstract_states", J::i(tot.states.len() as i64))
        .with("runs_per_hour", J::Num((tot.runs as f64 / wall.max(0.001) * 3600.0).round()))
        .with("simulated_seconds", J::Num(sim_s.round()))
        .with("fault_kinds_fired", m(&tot.faults))
        .with("probes", m(&tot.probes))
        .with("probes_at_zero", J::Arr(zero_probes))
        .with("run_end_reasons", m(&tot.ends))
        .with("counters", m(&tot.ints))
        .with("worker_process_aborts", J::i(crashes as i64))
        .with("profiles", J::s("3/4 of runs on the ship build (release, wrapping arithmetic), 1/4 on the chk build (overflow checks)"))
        .with(
            "enumerated_stratum",
            match crate::scen::strat_space(a.prop) {
                0 => J::s("none for this property"),
                space => {
                    let walked = (tot.runs / 4).min(space);
                    J::obj()
                        .with("what", J::s(if a.prop == "C03" { "every file name made of a prefix (8: none, /, \\, //, ../, ..\\, absolute outside, absolute sibling) and one to three segments of a path-segment alphabet (12 segments, 4 separators; 6 segments and 2 separators at length three), each as RRQ and as WRQ, four names per run, walked by run number on both builds; the server configuration around them is drawn per run; see scen_srv.rs enumerated_name" } else { "small configurations (kind x handshake x windowsize 1,2,3,4,8 x 10 lengths x 3 tail sizes) x every position x variant, walked by run number on both builds; see scen.rs xfer_stratum" }))
                        .with("space", J::i(space as i64))
                        .with("indices_walked_per_build", J::i(walked as i64))
                        .with("complete", J::Bool(walked >= space))
                }
            },
        )
        .with("jobs", J::i(a.jobs as i64))
        .with("known_findings_hit", J::Arr(known_hit.iter().map(|k| J::s(k.clone())).collect()))
        .with(
            "real_vs_stub",
            J::s("real: packet/convert codec, socket.rs, server.rs listen+handlers, worker.rs, window.rs, config.rs, client.rs (C14/C16), file system (tmpfs sandbox; write errors and torn writes injected at the hook before write_all, short writes produced by the kernel itself under a momentary RLIMIT_FSIZE, a FIFO among the served files parks its opener), OS threads; simulated: kernel UDP, socket timeouts, mpsc wake-ups, Instant, sleep, who-runs-next; model: client peers with an independent RFC codec; watchdog: a released thread that does not reach a scheduling point within 60 real seconds ends the worker process (exit 71) and is reported as <ID>.task_stuck"),
        );
    let ev = J::obj()
        .with("property_id", J::s(a.prop))
        .with("tier", J::s(tier_name(a.tier)))
        .with("seed", J::i(a.seed as i64))
        .with("level", J::s(a.level.clone()))
        .with("coverage", cov)
        .with(
            "assumptions",
            J::Arr(vec![
                J::s("the simulated UDP layer models Linux loopback semantics listed in DESIGN.md 2.2"),
                J::s("interleavings are explored at seam calls and file-system points only"),
                J::s("seeded sampling: a clean batch is evidence, not proof"),
            ]),
        )
        .with("wall_s", J::Num((wall * 100.0).round() / 100.0))
        .with("violations", J::i(violations.len() as i64));
    if let Some(d) = a.evidence.parent() {
        let _ = std::fs::create_dir_all(d);
    }
    let _ = std::fs::write(&a.evidence, ev.dump());
    println!(
        "{} {}: runs={} distinct_nontrivial={} sim={:.0}s wall={:.1}s faults={:?} violations={} known={} aborts={}",
        a.prop,
        tier_name(a.tier),
        tot.runs,
        tot.nt_shapes.len(),
        sim_s,
        wall,
        tot.faults,
        violations.len(),
        known_hit.len(),
        crashes
    );
    if !harness_errors.is_empty() {
        println!("HARNESS-ERROR ({}): {}", harness_errors.len(), harness_errors[0]);
        return 2;
    }
    if tot.runs == 0 {
        println!("HARNESS-ERROR: no runs executed");
        return 2;
    }
    if !violations.is_empty() {
        1
    } else {
        0
    }
}

pub fn expected_probes(prop: &str) -> Vec<&'static str> {
    match prop {
        "C01" => vec!["partial_window_ack", "dup_or_stale_ack", "future_ack", "timeout_retransmission"],
        "C02" => vec!["out_of_order_or_duplicate_data", "unexpected_packet_at_worker", "re_ack_of_last_block"],
        "C04" => vec!["timeout_retransmission", "partial_window_ack", "re_ack_of_last_block"],
        "C07" => vec!["error_delivered_to_worker", "partial_ack_after_eof", "gave_up_after_six_failed_receives"],
        "C08" => vec!["dup_or_stale_ack", "stale_ack_at_w65535", "timeout_retransmission", "gap_retransmission_after_partial_ack"],
        _ => vec![],
    }
}

// ------------------------------------------------------------------------------------------
// replay
// ------------------------------------------------------------------------------------------

pub fn replay(path: &Path, ship: Option<PathBuf>, chk: Option<PathBuf>) -> i32 {
    let s = match std::fs::read_to_string(path) {
        Ok(s) => s,
        Err(e) => {
            println!("HARNESS-ERROR: cannot read {}: {e}", path.display());
            return 2;
        }
    };
    let j = match json::parse(&s) {
        Ok(j) => j,
        Err(e) => {
            println!("HARNESS-ERROR: cannot parse {}: {e}", path.display());
            return 2;
        }
    };
    let prop = run::static_prop(j.get("property").and_then(|x| x.as_str()).unwrap_or("")).expect("property in replay file");
    let profile = j.get("profile").and_then(|x| x.as_str()).unwrap_or("ship");
    let tier = parse_tier(j.get("tier").and_then(|x| x.as_str()).unwrap_or("quick"));
    let rule = j.get("rule").and_then(|x| x.as_str()).unwrap_or("").to_string();
    if profile != profile_name() {
        // re-exec the binary of the recorded profile
        let bin = if profile == "chk" { chk } else { ship };
        match bin {
            Some(b) => {
                let st = Command::new(b).arg("replay").arg(path).status();
                return st.ok().and_then(|s| s.code()).unwrap_or(2);
            }
            None => {
                println!("HARNESS-ERROR: replay file needs the {profile} build");
                return 2;
            }
        }
    }
    if j.get("crash").is_some() {
        // run the recorded seed in a child process and watch it die
        let seed = j.get("verif_seed").and_then(|x| x.as_i64()).unwrap_or(1) as u64;
        let runno = j.get("run").and_then(|x| x.as_i64()).unwrap_or(0) as u64;
        let me = std::env::current_exe().expect("exe");
        let st = Command::new(me)
            .arg("worker")
            .arg(prop)
            .arg("--tier")
            .arg(tier_name(tier))
            .arg("--seed")
            .arg(seed.to_string())
            .arg("--start")
            .arg(runno.to_string())
            .arg("--stride")
            .arg("1")
            .arg("--end")
            .arg((runno + 1).to_string())
            .arg("--deadline-s")
            .arg("600")
            .arg("--replay-dir")
            .arg("/dev/shm/tftpd-sim-replay-scratch")
            .stdout(Stdio::null())
            .stderr(Stdio::null())
            .status();
        let _ = std::fs::remove_dir_all("/dev/shm/tftpd-sim-replay-scratch");
        return match st {
            Ok(s) if !s.success() => {
                println!("REPRODUCED rule={rule}: worker process died again ({s})");
                println!("VIOLATION property={prop} replay={}", path.display());
                1
            }
            Ok(_) => {
                println!("NOT-REPRODUCED: the run completed without a process abort");
                0
            }
            Err(e) => {
                println!("HARNESS-ERROR: {e}");
                2
            }
        };
    }
    let mut list = vec![];
    let mut sites = vec![];
    if let Some(arr) = j.get("minimised").and_then(|x| x.as_arr()) {
        for c in arr {
            if let Some(p) = c.as_arr() {
                sites.push(p[0].as_str().unwrap_or("").to_string());
                list.push(p[1].as_i64().unwrap_or(0) as u32);
            }
        }
    }
    let o = run::execute(prop, tier, Choices::replay(list, Some(sites)), true);
    if let Some(e) = &o.harness_error {
        println!("HARNESS-ERROR: {e}");
        return 2;
    }
    let want_hash = j.get("trace_hash").and_then(|x| x.as_str()).unwrap_or("").to_string();
    let got_hash = format!("{:016x}", o.trace.as_ref().map(|t| trace_hash(t)).unwrap_or(0));
    if let Some(t) = &o.trace {
        let n = t.len();
        for l in t.iter().skip(n.saturating_sub(40)) {
            println!("  {l}");
        }
    }
    match &o.violation {
        Some(v) if v.rule == rule => {
            println!("REPRODUCED rule={} trace_hash={} ({}) :: {}", v.rule, got_hash, if got_hash == want_hash { "identical to the recorded run" } else { "differs from the recorded run: the code under test changed" }, v.detail);
            println!("VIOLATION property={prop} replay={}", path.display());
            1
        }
        Some(v) => {
            println!("DIFFERENT-VIOLATION rule={} (file records {rule}) :: {}", v.rule, v.detail);
            println!("VIOLATION property={prop} replay={}", path.display());
            1
        }
        None => {
            println!("NOT-REPRODUCED: the recorded schedule no longer violates {rule} on this tree");
            0
        }
    }
}

// ------------------------------------------------------------------------------------------
// determinism self-test
// ------------------------------------------------------------------------------------------

/// Prints one fingerprint per run (used by the self-test, which diffs two processes).
pub fn fingerprints(prop: &'static str, tier: Tier, seed: u64, start: u64, end: u64, out: &mut dyn Write) {
    for r in start..end {
        if profile_of_run(r) != profile_name() {
            continue;
        }
        let o = run::execute(prop, tier, Choices::search_run(run_seed(seed, prop, r), r), true);
        let _ = writeln!(out, "F {prop} {r} {:016x}", fingerprint(&o));
    }
    crate::common::cleanup_process_sandbox();
}
