//! The simulated machine: scheduler (real threads, released one at a time), discrete-event
//! virtual clock, simulated UDP and channel wake-ups. Implements `tftpd::verif::Backend`.
use crate::choice::{mix, Choices};
use crate::rfc;
use std::any::Any;
use std::cell::Cell;
use std::cmp::Reverse;
use std::collections::{BTreeMap, BinaryHeap, VecDeque};
use std::fs::File;
use std::io::{self, Write};
use std::net::{IpAddr, Ipv4Addr, Ipv6Addr, SocketAddr};
use std::path::{Path, PathBuf};
use std::sync::{Arc, Condvar, Mutex, MutexGuard};
use std::time::Duration;
use tftpd::verif::{Backend, ChanId, SockId, TaskId};

pub type Ns = u64;
pub type EpId = usize;
pub const BOOT_NS: Ns = 1_000_000_000_000;
pub const SYSCALL_NS: Ns = 1_000;
pub const BASE_LATENCY_NS: Ns = 50_000;
pub const US: Ns = 1_000;
pub const MS: Ns = 1_000_000;
pub const SEC: Ns = 1_000_000_000;

/// Private unwind payload used to end parked threads at the end of a run.
pub struct Shutdown;

thread_local! {
    static MY_TASK: Cell<Option<TaskId>> = const { Cell::new(None) };
}

pub fn my_task() -> Option<TaskId> {
    MY_TASK.with(|c| c.get())
}

#[derive(Clone, Copy, Debug, PartialEq, Eq, PartialOrd, Ord)]
pub enum Actor {
    Driver,
    Task(TaskId),
    Peer(usize),
}

#[derive(Clone, Copy, Debug, PartialEq, Eq)]
pub enum Fate {
    Deliver,
    Drop,
    Dup,
    Delay,
    BigDelay,
    Late,
    NoRoute,
    Filtered,
}

impl Fate {
    pub fn tag(&self) -> &'static str {
        match self {
            Fate::Deliver => "ok",
            Fate::Drop => "drop",
            Fate::Dup => "dup",
            Fate::Delay => "delay",
            Fate::BigDelay => "bigdelay",
            Fate::Late => "late",
            Fate::NoRoute => "noroute",
            Fate::Filtered => "filtered",
        }
    }
}

#[derive(Clone, Debug, PartialEq)]
pub enum RecvRes {
    Data { from: SocketAddr, data: Arc<[u8]>, full_len: usize, dgram: u64 },
    Timeout,
    Err(io::ErrorKind),
}

#[derive(Clone, Debug)]
pub enum Ev {
    Spawn { task: TaskId, parent: Actor },
    Begin { task: TaskId },
    End { task: TaskId, panic: Option<String> },
    Bind { actor: Actor, ep: EpId, addr: SocketAddr },
    Connect { actor: Actor, ep: EpId, peer: SocketAddr },
    Close { actor: Actor, ep: EpId, addr: SocketAddr },
    Send { actor: Actor, ep: EpId, src: SocketAddr, dst: SocketAddr, data: Arc<[u8]>, fate: Fate, dgram: u64 },
    SendErr { actor: Actor, ep: EpId, kind: io::ErrorKind, data: Arc<[u8]>, dst: Option<SocketAddr> },
    Deliver { dgram: u64, ep: EpId, dst: SocketAddr, src: SocketAddr, data: Arc<[u8]>, to_peer: Option<usize> },
    Lost { dgram: u64, why: &'static str },
    RecvCall { task: TaskId, ep: EpId },
    RecvRet { task: TaskId, ep: EpId, res: RecvRes },
    ChanNotify { actor: Actor, chan: ChanId, what: &'static str },
    ChanWait { task: TaskId, chan: ChanId, timed_out: bool },
    ChanTrace { actor: Actor, chan: ChanId, what: &'static str },
    Fs { task: Actor, op: &'static str, path: PathBuf },
    DiskWrite { task: Actor, len: usize, fault: Option<(&'static str, usize)> },
    Sleep { task: TaskId, ns: Ns },
    Join { task: TaskId, target: TaskId },
    Stall { task: TaskId, ns: Ns },
    Note { actor: Actor, text: String },
}

#[derive(Clone, Copy, Debug)]
pub struct Stamp {
    pub seq: u64,
    pub t: Ns,
}

#[derive(Clone, Debug)]
pub struct Violation {
    pub property: String,
    pub rule: String,
    pub detail: String,
    /// fields a known-finding entry must match
    pub signature: BTreeMap<String, String>,
    pub at_seq: u64,
}

impl Violation {
    pub fn new(property: &str, rule: &str, detail: String) -> Violation {
        Violation { property: property.to_string(), rule: rule.to_string(), detail, signature: BTreeMap::new(), at_seq: 0 }
    }
    pub fn sig(mut self, k: &str, v: impl Into<String>) -> Violation {
        self.signature.insert(k.to_string(), v.into());
        self
    }
}

pub trait Monitor: Send {
    fn on_event(&mut self, w: &Inner, st: &Stamp, ev: &Ev) -> Option<Violation>;
    fn at_end(&mut self, _w: &Inner, _end: EndReason) -> Option<Violation> {
        None
    }
    fn probes(&self, _out: &mut BTreeMap<&'static str, u64>) {}
    fn inconclusive(&self) -> bool {
        false
    }
    fn as_any(&self) -> &dyn Any;
}

pub trait Peer: Send {
    fn start(&mut self, cx: &mut Cx);
    fn on_datagram(&mut self, cx: &mut Cx, from: SocketAddr, data: &[u8]);
    fn on_timer(&mut self, cx: &mut Cx, token: u64);
    fn as_any(&self) -> &dyn Any;
    fn as_any_mut(&mut self) -> &mut dyn Any;
}

/// What a peer handler may do (runs in the driver, world locked).
pub struct Cx<'a> {
    pub w: &'a mut Inner,
    pub me: usize,
    pub ep: EpId,
}

impl Cx<'_> {
    pub fn now(&self) -> Ns {
        self.w.now
    }
    pub fn addr(&self) -> SocketAddr {
        self.w.eps[self.ep].addr
    }
    pub fn send(&mut self, to: SocketAddr, data: &[u8]) {
        let _ = self.w.net_send(Actor::Peer(self.me), self.ep, Some(to), data);
    }
    pub fn timer(&mut self, delay: Ns, token: u64) {
        let at = self.w.now + delay;
        let me = self.me;
        self.w.push(at, EvKind::PeerTimer { peer: me, token });
    }
    pub fn note(&mut self, text: String) {
        let me = self.me;
        self.w.emit(Ev::Note { actor: Actor::Peer(me), text });
    }
    pub fn choose(&mut self, site: &'static str, weights: &[u32]) -> usize {
        self.w.choices.choose(site, weights)
    }
    pub fn range(&mut self, site: &'static str, n: u32) -> u32 {
        self.w.choices.range(site, n)
    }
    pub fn adversarial(&mut self, kind: &'static str) {
        self.w.stats.count_fault(kind);
    }
    /// The peer's process dies: its socket is closed, later datagrams to it bounce (ICMP).
    pub fn close_endpoint(&mut self) {
        let (me, ep) = (self.me, self.ep);
        self.w.close_endpoint(Actor::Peer(me), ep);
    }
    pub fn icmp_enabled(&self) -> bool {
        self.w.icmp
    }
}

#[derive(Clone, Copy, Debug, PartialEq, Eq)]
pub enum EndReason {
    Quiescent,
    StepCap,
    TimeCap,
    Violation,
}

#[derive(Clone, Debug)]
pub struct FaultCfg {
    /// weights of the fates [deliver, drop, dup, delay, bigdelay, late]
    pub fate_w: [u32; 6],
    /// apply fates to datagrams sent by tasks (server side) / by peers
    pub on_task_sends: bool,
    pub on_peer_sends: bool,
    /// faults only from the first DATA datagram on (C04: the data phase)
    pub after_first_data: bool,
    /// total number of faults a run may inject
    pub budget: u32,
    /// weight of an immediate recv error vs 1000 (only transfer sockets: eps with a read timeout)
    pub recv_err_w: u32,
    /// weight (vs 1000) of a failing send syscall on a transfer socket (transient ENOBUFS-like error)
    pub send_err_w: u32,
    /// weights of scheduling delays when a task becomes runnable [0, 1us, 20us, 300us, 2ms]
    pub sched_w: [u32; 5],
    /// the delays those weights select (ns)
    pub sched_table: [Ns; 5],
    /// weight of a long stall (vs 1000) when a task becomes runnable
    pub stall_w: u32,
    /// weights of timer lateness [1us, 1ms, 4ms]
    pub late_w: [u32; 3],
    /// weight (vs 1000) of a disk write fault at a disk write point
    pub disk_w: u32,
    /// the timeout (ns) that scales bigdelay / stall lengths
    pub scale_ns: Ns,
    /// never apply a fate to RRQ/WRQ datagrams (duplicate requests are C13's subject)
    pub spare_requests: bool,
    /// stratified faults: (opcode, block number, fate) forced once each onto the first matching
    /// datagram sent after 60000 DATA datagrams (the windows around the 16-bit wrap)
    pub forced: Vec<(u8, u16, Fate)>,
    /// enumerated stratum: this fate for the n-th datagram of the data phase (the first DATA is 0)
    pub forced_nth: Option<(u64, Fate)>,
    /// the same for several datagrams of the data phase (positions ascending)
    pub forced_list: Vec<(u64, Fate)>,
    /// no random faults after this much virtual time (a later, fault-free phase of the run)
    pub until_ns: Option<Ns>,
}

impl Default for FaultCfg {
    fn default() -> Self {
        FaultCfg {
            fate_w: [1, 0, 0, 0, 0, 0],
            on_task_sends: true,
            on_peer_sends: true,
            after_first_data: false,
            budget: 0,
            recv_err_w: 0,
            send_err_w: 0,
            sched_w: [1, 0, 0, 0, 0],
            sched_table: [0, US, 20 * US, 300 * US, 2 * MS],
            stall_w: 0,
            late_w: [1, 0, 0],
            disk_w: 0,
            scale_ns: 5 * SEC,
            spare_requests: false,
            forced: Vec::new(),
            forced_nth: None,
            forced_list: Vec::new(),
            until_ns: None,
        }
    }
}

#[derive(Default, Clone, Debug)]
pub struct Stats {
    pub faults: BTreeMap<&'static str, u64>,
    pub steps: u64,
    pub handoffs: u64,
    pub sched_decisions: u64,
    pub datagrams: u64,
    pub data_blocks: u64,
    pub shape: u64,
    pub states: Vec<u64>,
}

impl Stats {
    pub fn count_fault(&mut self, k: &'static str) {
        *self.faults.entry(k).or_insert(0) += 1;
    }
    pub fn faults_fired(&self) -> u64 {
        self.faults.values().sum()
    }
}

#[derive(Debug)]
enum EvKind {
    Resume { task: TaskId, token: u64, why: Wake },
    Deliver { dgram: u64, dst: SocketAddr, src: SocketAddr, data: Arc<[u8]> },
    Timer { task: TaskId, token: u64 },
    PeerTimer { peer: usize, token: u64 },
}

struct HeapItem {
    at: Ns,
    seq: u64,
    kind: EvKind,
}
impl PartialEq for HeapItem {
    fn eq(&self, o: &Self) -> bool {
        self.at == o.at && self.seq == o.seq
    }
}
impl Eq for HeapItem {}
impl PartialOrd for HeapItem {
    fn partial_cmp(&self, o: &Self) -> Option<std::cmp::Ordering> {
        Some(self.cmp(o))
    }
}
impl Ord for HeapItem {
    fn cmp(&self, o: &Self) -> std::cmp::Ordering {
        (self.at, self.seq).cmp(&(o.at, o.seq))
    }
}

#[derive(Clone, Copy, Debug, PartialEq, Eq)]
pub enum Wake {
    Start,
    Ready,
    Data,
    Timeout,
    Notify,
    Joined,
}

#[derive(Clone, Copy, Debug, PartialEq, Eq)]
pub enum TState {
    Created,
    Running,
    Blocked,
    Ended,
}

pub struct TaskSt {
    pub state: TState,
    pub parent: Actor,
    pub token: u64,
    pub wake: Wake,
    pub wait_ep: Option<EpId>,
    pub wait_chan: Option<ChanId>,
    pub wait_join: Option<TaskId>,
    pub deadline: Option<Ns>,
    pub panic: Option<String>,
    /// kernel thread id of the thread that runs this task (for the watchdog)
    pub os_tid: i64,
    cv: Arc<Condvar>,
}

pub struct Endpoint {
    pub addr: SocketAddr,
    pub connected: Option<SocketAddr>,
    pub queue: VecDeque<(Arc<[u8]>, SocketAddr, u64)>,
    pub read_timeout: Option<Ns>,
    pub refs: usize,
    pub open: bool,
    pub peer: Option<usize>,
    pub pending_err: Option<io::ErrorKind>,
    pub owner: Actor,
}

pub struct Inner {
    pub now: Ns,
    pub seq: u64,
    heap: BinaryHeap<Reverse<HeapItem>>,
    pub tasks: Vec<TaskSt>,
    pub eps: Vec<Endpoint>,
    socks: Vec<Option<EpId>>,
    addr_map: BTreeMap<(bool, u16), EpId>,
    next_port: u16,
    free_ports: Vec<u16>,
    chans: u64,
    pub peers: Vec<Option<Box<dyn Peer>>>,
    /// endpoint of each peer; several peers may share one (a client endpoint reused for a later transfer):
    /// datagrams go to the one started last
    pub peer_eps: Vec<EpId>,
    pub monitors: Vec<Box<dyn Monitor>>,
    pub choices: Choices,
    pub cfg: FaultCfg,
    pub budget_left: u32,
    pub data_phase: bool,
    pub violation: Option<Violation>,
    pub trace: Option<Vec<String>>,
    /// the simulated device filled up (a short write happened): every later write fails
    pub disk_full: bool,
    pub stats: Stats,
    running: Option<TaskId>,
    shutdown: bool,
    live_threads: usize,
    dgrams: u64,
    pub port_reuse: bool,
    pub icmp: bool,
    pub harness_error: Option<String>,
    /// sandbox root, replaced by "$SB" in traces so that they do not depend on the pid
    pub sb_root: String,
    /// C15: faults only while the DATA count is within this margin of a multiple of 65536
    pub wrap_gate: Option<u64>,
    /// datagrams sent since the data phase began
    pub phase_dgrams: u64,
}

pub struct World {
    m: Mutex<Inner>,
    driver_cv: Condvar,
}

pub fn loopback(v6: bool) -> IpAddr {
    if v6 {
        IpAddr::V6(Ipv6Addr::LOCALHOST)
    } else {
        IpAddr::V4(Ipv4Addr::LOCALHOST)
    }
}

impl Inner {
    fn push(&mut self, at: Ns, kind: EvKind) {
        self.seq += 1;
        let seq = self.seq;
        self.heap.push(Reverse(HeapItem { at, seq, kind }));
    }

    fn tick(&mut self) {
        self.now += SYSCALL_NS;
    }

    pub fn emit(&mut self, ev: Ev) {
        self.seq += 1;
        let st = Stamp { seq: self.seq, t: self.now };
        // shape hash
        let code = shape_code(&ev);
        if code != 0 {
            self.stats.shape = mix(self.stats.shape, code);
        }
        if let Some(tr) = &mut self.trace {
            // keep the head and (by dropping from the middle) the tail of long traces
            if tr.len() >= 400_000 {
                tr.drain(2_000..102_000);
                tr.insert(2_000, "... (100000 events elided) ...".to_string());
            }
            {
                let mut line = fmt_ev(&st, &ev);
                if !self.sb_root.is_empty() && line.contains(&self.sb_root) {
                    line = line.replace(&self.sb_root, "$SB");
                }
                tr.push(line);
            }
        }
        if self.violation.is_none() {
            let mut ms = std::mem::take(&mut self.monitors);
            for m in ms.iter_mut() {
                if let Some(mut v) = m.on_event(self, &st, &ev) {
                    v.at_seq = st.seq;
                    if self.violation.is_none() {
                        self.violation = Some(v);
                    }
                }
            }
            self.monitors = ms;
        }
    }

    fn use_budget(&mut self, kind: &'static str) {
        self.budget_left = self.budget_left.saturating_sub(1);
        self.stats.count_fault(kind);
    }

    fn faults_allowed(&self) -> bool {
        if self.budget_left == 0 || (self.cfg.after_first_data && !self.data_phase) {
            return false;
        }
        if let Some(u) = self.cfg.until_ns {
            if self.now.saturating_sub(BOOT_NS) > u {
                return false;
            }
        }
        match self.wrap_gate {
            None => true,
            Some(m) => {
                let n = self.stats.data_blocks;
                let x = n % 65536;
                n + m >= 65536 && (x + m >= 65536 || x <= m)
            }
        }
    }

    fn lateness(&mut self) -> Ns {
        let w = self.cfg.late_w;
        match self.choices.choose("timer.lateness", &w) {
            0 => US,
            1 => MS,
            _ => 4 * MS,
        }
    }

    fn sched_delay(&mut self, task: TaskId) -> Ns {
        let w = self.cfg.sched_w;
        let i = self.choices.choose("sched.delay", &w);
        if w.iter().filter(|x| **x > 0).count() > 1 {
            self.stats.sched_decisions += 1;
        }
        let mut d = self.cfg.sched_table[i];
        if self.cfg.stall_w > 0 && self.faults_allowed() {
            let sw = [1000 - self.cfg.stall_w.min(999), self.cfg.stall_w];
            if self.choices.choose("sched.stall", &sw) == 1 {
                let k = self.choices.range("sched.stall.len", 5) as usize;
                let s = self.cfg.scale_ns;
                let len = [100 * MS, s / 2, s - 10 * MS, s + 10 * MS, 3 * s][k];
                self.use_budget("stall");
                self.emit(Ev::Stall { task, ns: len });
                d += len;
            }
        }
        d
    }

    fn make_runnable(&mut self, task: TaskId, why: Wake) {
        let token = self.tasks[task as usize].token;
        let d = self.sched_delay(task);
        let at = self.now + d;
        self.push(at, EvKind::Resume { task, token, why });
    }

    fn alloc_port(&mut self, v6: bool) -> u16 {
        if self.port_reuse && !self.free_ports.is_empty() {
            if self.choices.choose("port.reuse", &[1, 1]) == 1 {
                let p = self.free_ports.pop().unwrap();
                if !self.addr_map.contains_key(&(v6, p)) {
                    self.stats.count_fault("port-reuse");
                    return p;
                }
            }
        }
        loop {
            let p = self.next_port;
            self.next_port = if self.next_port >= 60999 { 32768 } else { self.next_port + 1 };
            if !self.addr_map.contains_key(&(v6, p)) {
                return p;
            }
        }
    }

    pub fn open_endpoint(&mut self, actor: Actor, addr: SocketAddr, peer: Option<usize>) -> io::Result<EpId> {
        let v6 = addr.is_ipv6();
        let port = if addr.port() == 0 { self.alloc_port(v6) } else { addr.port() };
        if self.addr_map.contains_key(&(v6, port)) {
            return Err(io::Error::new(io::ErrorKind::AddrInUse, "address in use"));
        }
        let addr = SocketAddr::new(addr.ip(), port);
        let ep = self.eps.len();
        self.eps.push(Endpoint {
            addr,
            connected: None,
            queue: VecDeque::new(),
            read_timeout: None,
            refs: 1,
            open: true,
            peer,
            pending_err: None,
            owner: actor,
        });
        self.addr_map.insert((v6, port), ep);
        self.emit(Ev::Bind { actor, ep, addr });
        Ok(ep)
    }

    fn close_endpoint(&mut self, actor: Actor, ep: EpId) {
        let e = &mut self.eps[ep];
        if !e.open {
            return;
        }
        e.open = false;
        e.queue.clear();
        let addr = e.addr;
        self.addr_map.remove(&(addr.is_ipv6(), addr.port()));
        if self.port_reuse {
            self.free_ports.push(addr.port());
        }
        self.emit(Ev::Close { actor, ep, addr });
    }

    /// Source address as the receiver sees it (unspecified local IP -> loopback).
    fn visible_src(&self, ep: EpId) -> SocketAddr {
        let a = self.eps[ep].addr;
        if a.ip().is_unspecified() {
            SocketAddr::new(loopback(a.is_ipv6()), a.port())
        } else {
            a
        }
    }

    /// The only transport the system sees.
    pub fn net_send(&mut self, actor: Actor, ep: EpId, to: Option<SocketAddr>, data: &[u8]) -> io::Result<usize> {
        if !self.eps[ep].open {
            return Err(io::Error::new(io::ErrorKind::NotConnected, "socket closed"));
        }
        if let Some(k) = self.eps[ep].pending_err.take() {
            let dst = to.or(self.eps[ep].connected);
            self.emit(Ev::SendErr { actor, ep, kind: k, data: Arc::from(data), dst });
            return Err(io::Error::new(k, "pending socket error"));
        }
        let dst = match to.or(self.eps[ep].connected) {
            Some(d) => d,
            None => {
                self.emit(Ev::SendErr { actor, ep, kind: io::ErrorKind::NotConnected, data: Arc::from(data), dst: None });
                return Err(io::Error::new(io::ErrorKind::NotConnected, "destination address required"));
            }
        };
        if data.len() > 65507 {
            self.emit(Ev::SendErr { actor, ep, kind: io::ErrorKind::InvalidInput, data: Arc::from(data), dst: to });
            return Err(io::Error::new(io::ErrorKind::InvalidInput, "message too long"));
        }
        if self.cfg.send_err_w > 0 && matches!(actor, Actor::Task(_)) && rfc::is_data(data) && self.faults_allowed() {
            let w = [1000 - self.cfg.send_err_w.min(999), self.cfg.send_err_w];
            if self.choices.choose("send.err", &w) == 1 {
                self.use_budget("send-err");
                self.emit(Ev::SendErr { actor, ep, kind: io::ErrorKind::Other, data: Arc::from(data), dst: Some(dst) });
                return Err(io::Error::new(io::ErrorKind::Other, "injected ENOBUFS"));
            }
        }
        let src = self.visible_src(ep);
        if src.is_ipv6() != dst.is_ipv6() {
            self.emit(Ev::SendErr { actor, ep, kind: io::ErrorKind::InvalidInput, data: Arc::from(data), dst: to });
            return Err(io::Error::new(io::ErrorKind::InvalidInput, "address family mismatch"));
        }
        if rfc::is_data(data) {
            self.data_phase = true;
            self.stats.data_blocks += 1;
        }
        self.stats.datagrams += 1;
        self.dgrams += 1;
        let dgram = self.dgrams;
        let data: Arc<[u8]> = Arc::from(data);

        // fate
        let applies = match actor {
            Actor::Task(_) | Actor::Driver => self.cfg.on_task_sends,
            Actor::Peer(_) => self.cfg.on_peer_sends,
        };
        let mut fate = Fate::Deliver;
        let is_request = data.len() >= 2 && data[0] == 0 && (data[1] == 1 || data[1] == 2);
        if applies && self.faults_allowed() && !(self.cfg.spare_requests && is_request) {
            let w = self.cfg.fate_w;
            fate = [Fate::Deliver, Fate::Drop, Fate::Dup, Fate::Delay, Fate::BigDelay, Fate::Late][self.choices.choose("net.fate", &w)];
        }
        if self.data_phase {
            if let Some((n, f)) = self.cfg.forced_nth {
                if self.phase_dgrams == n {
                    fate = f;
                    self.budget_left += 1;
                    self.stats.count_fault("forced-nth");
                }
            }
            if let Some(i) = self.cfg.forced_list.iter().position(|(n, _)| *n == self.phase_dgrams) {
                fate = self.cfg.forced_list[i].1;
                self.budget_left += 1;
                self.stats.count_fault("forced-nth");
            }
            self.phase_dgrams += 1;
        }
        if !self.cfg.forced.is_empty() && self.stats.data_blocks >= 60000 && data.len() >= 4 && data[0] == 0 {
            let num = u16::from_be_bytes([data[2], data[3]]);
            if let Some(i) = self.cfg.forced.iter().position(|(op, n, _)| *op == data[1] && *n == num) {
                let (_, _, f) = self.cfg.forced.remove(i);
                fate = f;
                self.budget_left += 1; // forced faults do not eat the random budget
                self.stats.count_fault("forced-at-wrap");
            }
        }
        let base = self.now + BASE_LATENCY_NS;
        let scale = self.cfg.scale_ns;
        let mut arrivals: Vec<Ns> = Vec::new();
        match fate {
            Fate::Deliver => arrivals.push(base),
            Fate::Drop => {
                self.use_budget("drop");
            }
            Fate::Dup => {
                self.use_budget("dup");
                arrivals.push(base);
                let k = self.choices.range("net.dup.gap", 4) as usize;
                arrivals.push(base + [US, 200 * US, 20 * MS, scale / 2][k]);
            }
            Fate::Delay => {
                self.use_budget("delay");
                let k = self.choices.range("net.delay.len", 4) as usize;
                arrivals.push(base + [60 * US, 500 * US, 5 * MS, 50 * MS][k]);
            }
            Fate::BigDelay => {
                self.use_budget("bigdelay");
                let k = self.choices.range("net.bigdelay.len", 4) as usize;
                arrivals.push(base + [scale / 2, scale - 20 * MS, scale + 20 * MS, 2 * scale + scale / 2][k]);
            }
            Fate::Late => {
                // just before / just after the receiver's current deadline
                let dl = self.receiver_deadline(dst);
                match dl {
                    Some(d) if d > base => {
                        self.use_budget("late");
                        let k = self.choices.range("net.late.off", 4) as usize;
                        let at = match k {
                            0 => d.saturating_sub(2 * US),
                            1 => d.saturating_sub(MS),
                            2 => d + 10 * US,
                            _ => d + 6 * MS,
                        };
                        arrivals.push(at.max(base));
                    }
                    _ => {
                        fate = Fate::Deliver;
                        arrivals.push(base);
                    }
                }
            }
            _ => arrivals.push(base),
        }
        self.emit(Ev::Send { actor, ep, src, dst, data: data.clone(), fate, dgram });
        for at in arrivals {
            self.push(at, EvKind::Deliver { dgram, dst, src, data: data.clone() });
        }
        Ok(data.len())
    }

    fn receiver_deadline(&self, dst: SocketAddr) -> Option<Ns> {
        let ep = *self.addr_map.get(&(dst.is_ipv6(), dst.port()))?;
        for t in &self.tasks {
            if t.state == TState::Blocked && t.wait_ep == Some(ep) {
                return t.deadline;
            }
        }
        None
    }

    fn deliver(&mut self, dgram: u64, dst: SocketAddr, src: SocketAddr, data: Arc<[u8]>) {
        let ep = match self.addr_map.get(&(dst.is_ipv6(), dst.port())) {
            Some(e) => *e,
            None => {
                self.emit(Ev::Lost { dgram, why: "no-socket" });
                self.icmp_to(src);
                return;
            }
        };
        if let Some(c) = self.eps[ep].connected {
            if c != src {
                self.emit(Ev::Lost { dgram, why: "filtered-by-connect" });
                return;
            }
        }
        let to_peer = self.eps[ep].peer;
        self.emit(Ev::Deliver { dgram, ep, dst, src, data: data.clone(), to_peer });
        match to_peer {
            Some(p) => self.call_peer(p, |peer, cx| peer.on_datagram(cx, src, &data)),
            None => {
                self.eps[ep].queue.push_back((data, src, dgram));
                self.wake_receiver(ep);
            }
        }
    }

    fn icmp_to(&mut self, src: SocketAddr) {
        if !self.icmp {
            return;
        }
        if let Some(ep) = self.addr_map.get(&(src.is_ipv6(), src.port())).copied() {
            if self.eps[ep].connected.is_some() && self.eps[ep].peer.is_none() {
                self.eps[ep].pending_err = Some(io::ErrorKind::ConnectionRefused);
                self.stats.count_fault("icmp-unreachable");
                self.wake_receiver(ep);
            }
        }
    }

    fn wake_receiver(&mut self, ep: EpId) {
        let mut found = None;
        for (i, t) in self.tasks.iter().enumerate() {
            if t.state == TState::Blocked && t.wait_ep == Some(ep) {
                found = Some(i as TaskId);
                break;
            }
        }
        if let Some(t) = found {
            self.make_runnable(t, Wake::Data);
        }
    }

    pub fn call_peer<F: FnOnce(&mut dyn Peer, &mut Cx)>(&mut self, p: usize, f: F) {
        if let Some(mut peer) = self.peers[p].take() {
            let ep = self.peer_ep(p);
            {
                let mut cx = Cx { w: self, me: p, ep };
                f(peer.as_mut(), &mut cx);
            }
            self.peers[p] = Some(peer);
        }
    }

    pub fn peer_ep(&self, p: usize) -> EpId {
        self.peer_eps[p]
    }

    fn start_peer_now(&mut self, p: usize) {
        let ep = self.peer_eps[p];
        self.eps[ep].peer = Some(p);
        self.call_peer(p, |peer, cx| peer.start(cx));
    }

    /// `None` while that peer's own handler is running (it is taken out of the table then).
    pub fn peer<T: 'static>(&self, p: usize) -> Option<&T> {
        self.peers.get(p)?.as_ref()?.as_any().downcast_ref::<T>()
    }

    pub fn task_alive(&self, t: TaskId) -> bool {
        self.tasks[t as usize].state != TState::Ended
    }

    pub fn ep_of_addr(&self, a: SocketAddr) -> Option<EpId> {
        self.addr_map.get(&(a.is_ipv6(), a.port())).copied()
    }

    fn sock_ep(&self, s: SockId) -> io::Result<EpId> {
        self.socks.get(s as usize).copied().flatten().ok_or_else(|| io::Error::new(io::ErrorKind::NotConnected, "bad socket"))
    }

    pub fn note(&mut self, text: String) {
        self.emit(Ev::Note { actor: Actor::Driver, text });
    }
}

fn shape_code(ev: &Ev) -> u64 {
    fn a(x: &Actor) -> u64 {
        match x {
            Actor::Driver => 1,
            Actor::Task(_) => 2,
            Actor::Peer(_) => 3,
        }
    }
    match ev {
        Ev::Send { actor, data, fate, .. } => {
            let op = if data.len() >= 2 { data[1] as u64 } else { 99 };
            let n = if data.len() >= 4 && (op == 3 || op == 4) { (((data[2] as u64) << 8 | data[3] as u64).min(70)) } else { 0 };
            let short = if op == 3 { (data.len() % 8 != 4) as u64 } else { 0 };
            1 + a(actor) * 7 + op * 31 + (*fate as u64) * 257 + n * 4099 + short * 65537
        }
        Ev::RecvRet { res, .. } => match res {
            RecvRes::Data { .. } => 1_000_003,
            RecvRes::Timeout => 1_000_033,
            RecvRes::Err(_) => 1_000_037,
        },
        Ev::End { panic, .. } => 2_000_003 + panic.is_some() as u64,
        Ev::Spawn { .. } => 3_000_017,
        Ev::Fs { op, .. } => 4_000_037 + op.len() as u64 + op.as_bytes()[0] as u64 * 13,
        Ev::DiskWrite { fault, .. } => 5_000_011 + fault.is_some() as u64,
        Ev::Lost { why, .. } => 6_000_011 + why.len() as u64,
        Ev::ChanTrace { what, .. } if what.starts_with("recv-") && *what != "recv-call" => 7_000_003 + what.len() as u64,
        Ev::SendErr { .. } => 8_000_009,
        Ev::Stall { .. } => 9_000_011,
        _ => 0,
    }
}

pub fn fmt_actor(a: &Actor) -> String {
    match a {
        Actor::Driver => "driver".into(),
        Actor::Task(t) => format!("task{t}"),
        Actor::Peer(p) => format!("peer{p}"),
    }
}

pub fn fmt_ev(st: &Stamp, ev: &Ev) -> String {
    let t = st.t - BOOT_NS;
    let head = format!("#{} t={}.{:06}", st.seq, t / SEC, (t % SEC) / 1000);
    let body = match ev {
        Ev::Spawn { task, parent } => format!("task{task} spawned by {}", fmt_actor(parent)),
        Ev::Begin { task } => format!("task{task} begins"),
        Ev::End { task, panic } => match panic {
            Some(p) => format!("task{task} PANICKED: {p}"),
            None => format!("task{task} ends"),
        },
        Ev::Bind { actor, ep, addr } => format!("{} bind ep{ep} {addr}", fmt_actor(actor)),
        Ev::Connect { actor, ep, peer } => format!("{} connect ep{ep} -> {peer}", fmt_actor(actor)),
        Ev::Close { actor, ep, addr } => format!("{} close ep{ep} {addr}", fmt_actor(actor)),
        Ev::Send { actor, src, dst, data, fate, dgram, .. } => {
            format!("{} send d{dgram} {src} -> {dst} {} [{}]", fmt_actor(actor), rfc::summary(data), fate.tag())
        }
        Ev::SendErr { actor, ep, kind, data, .. } => format!("{} send of {} on ep{ep} fails: {kind:?}", fmt_actor(actor), rfc::summary(data)),
        Ev::Deliver { dgram, dst, data, to_peer, .. } => match to_peer {
            Some(p) => format!("deliver d{dgram} to peer{p} {}", rfc::summary(data)),
            None => format!("deliver d{dgram} to {dst} {}", rfc::summary(data)),
        },
        Ev::Lost { dgram, why } => format!("d{dgram} lost: {why}"),
        Ev::RecvCall { task, ep } => format!("task{task} recv on ep{ep} ..."),
        Ev::RecvRet { task, ep, res } => match res {
            RecvRes::Data { from, data, full_len, dgram } => {
                let tr = if *full_len != data.len() { format!(" TRUNCATED from {full_len}") } else { String::new() };
                format!("task{task} recv ep{ep} <- d{dgram} from {from} {}{tr}", rfc::summary(data))
            }
            RecvRes::Timeout => format!("task{task} recv ep{ep} TIMEOUT"),
            RecvRes::Err(k) => format!("task{task} recv ep{ep} ERR {k:?}"),
        },
        Ev::ChanNotify { actor, chan, what } => format!("{} chan{chan} {what}", fmt_actor(actor)),
        Ev::ChanWait { task, chan, timed_out } => format!("task{task} chan{chan} wait -> {}", if *timed_out { "TIMEOUT" } else { "woken" }),
        Ev::ChanTrace { actor, chan, what } => format!("{} chan{chan} {what}", fmt_actor(actor)),
        Ev::Fs { task, op, path } => format!("{} fs {op} {}", fmt_actor(task), path.display()),
        Ev::DiskWrite { task, len, fault } => match fault {
            Some((k, n)) => format!("{} disk write {len} B FAULT {k} after {n} B", fmt_actor(task)),
            None => format!("{} disk write {len} B", fmt_actor(task)),
        },
        Ev::Sleep { task, ns } => format!("task{task} sleep {} us", ns / 1000),
        Ev::Join { task, target } => format!("task{task} joins task{target}"),
        Ev::Stall { task, ns } => format!("task{task} STALLED for {} ms", ns / MS),
        Ev::Note { actor, text } => format!("{} note: {text}", fmt_actor(actor)),
    };
    format!("{head} {body}")
}

impl World {
    pub fn new(choices: Choices, cfg: FaultCfg, record_trace: bool) -> Arc<World> {
        let budget = cfg.budget;
        Arc::new(World {
            m: Mutex::new(Inner {
                now: BOOT_NS,
                seq: 0,
                heap: BinaryHeap::new(),
                tasks: Vec::new(),
                eps: Vec::new(),
                socks: Vec::new(),
                addr_map: BTreeMap::new(),
                next_port: 40000,
                free_ports: Vec::new(),
                chans: 0,
                peers: Vec::new(),
                peer_eps: Vec::new(),
                monitors: Vec::new(),
                choices,
                cfg,
                budget_left: budget,
                data_phase: false,
                violation: None,
                trace: if record_trace { Some(Vec::new()) } else { None },
                disk_full: false,
                stats: Stats::default(),
                running: None,
                shutdown: false,
                live_threads: 0,
                dgrams: 0,
                port_reuse: false,
                icmp: false,
                harness_error: None,
                sb_root: String::new(),
                wrap_gate: None,
                phase_dgrams: 0,
            }),
            driver_cv: Condvar::new(),
        })
    }

    pub fn lock(&self) -> MutexGuard<'_, Inner> {
        self.m.lock().unwrap_or_else(|e| e.into_inner())
    }

    /// Adds a model peer with its own endpoint; returns its index.
    pub fn add_peer(&self, peer: Box<dyn Peer>, v6: bool, port: u16) -> (usize, SocketAddr) {
        let mut g = self.lock();
        let p = g.peers.len();
        g.peers.push(Some(peer));
        let ep = g.open_endpoint(Actor::Peer(p), SocketAddr::new(loopback(v6), port), Some(p)).expect("peer endpoint");
        g.peer_eps.push(ep);
        let a = g.eps[ep].addr;
        (p, a)
    }

    /// Adds a peer that reuses the endpoint of peer `k` (it takes the endpoint over when it starts).
    pub fn add_peer_on(&self, peer: Box<dyn Peer>, k: usize) -> (usize, SocketAddr) {
        let mut g = self.lock();
        let p = g.peers.len();
        g.peers.push(Some(peer));
        let ep = g.peer_eps[k];
        g.peer_eps.push(ep);
        let a = g.eps[ep].addr;
        (p, a)
    }

    pub fn start_peer(&self, p: usize) {
        let mut g = self.lock();
        g.start_peer_now(p);
    }

    /// Starts a peer at a later virtual time (token u64::MAX is delivered to `on_timer`).
    pub fn start_peer_at(&self, p: usize, delay: Ns) {
        let mut g = self.lock();
        let at = g.now + delay;
        g.push(at, EvKind::PeerTimer { peer: p, token: u64::MAX });
    }

    pub fn add_monitor(&self, m: Box<dyn Monitor>) {
        let mut g = self.lock();
        // a monitor added after the first spawn would miss the events that attribute tasks
        assert!(g.tasks.is_empty(), "monitor added after tasks were spawned");
        g.monitors.push(m);
    }

    /// For monitors that only judge the end state (they need no task attribution).
    pub fn add_late_monitor(&self, m: Box<dyn Monitor>) {
        self.lock().monitors.push(m);
    }

    /// Spawns a repo-side thread as a simulated task (inherits the backend).
    pub fn spawn_task<F: FnOnce() + Send + 'static>(self: &Arc<Self>, f: F) {
        let be: Arc<dyn Backend> = self.clone();
        tftpd::verif::install(Some(be));
        let h = tftpd::verif::thread::spawn(f);
        tftpd::verif::install(None);
        drop(h);
    }

    fn run_task<'a>(&'a self, mut g: MutexGuard<'a, Inner>, t: TaskId) -> MutexGuard<'a, Inner> {
        g.running = Some(t);
        g.stats.handoffs += 1;
        let cv = g.tasks[t as usize].cv.clone();
        cv.notify_one();
        // Watchdog. A released thread normally reaches its next scheduling point within microseconds.
        // It is declared stuck only on evidence that does not depend on how loaded the machine is:
        //  (a) blocked: for 60 s of real time every sample (one per 2 s) finds it sleeping in the kernel
        //      (state S or D) and it has used less than a second of CPU: a system call the simulator does
        //      not own (open of a FIFO, a real sleep, a real socket);
        //  (b) spinning: it has burnt 30 CPU-seconds since it was released;
        //  (c) half an hour of real time whatever the reason.
        // A thread that is merely starved of CPU is runnable (state R) and matches neither (a) nor (b).
        let t0 = std::time::Instant::now();
        let tid = g.tasks[t as usize].os_tid;
        let cpu0 = thread_cpu_and_state(tid).map(|x| x.0).unwrap_or(0.0);
        let mut blocked_since: Option<std::time::Instant> = None;
        while g.running.is_some() {
            let (g2, to) = self.driver_cv.wait_timeout(g, Duration::from_secs(2)).unwrap_or_else(|e| e.into_inner());
            g = g2;
            if !(to.timed_out() && g.running.is_some()) {
                continue;
            }
            let tid = g.tasks[t as usize].os_tid;
            let (cpu, state) = thread_cpu_and_state(tid).unwrap_or((cpu0, '?'));
            let used = cpu - cpu0;
            if state == 'S' || state == 'D' {
                blocked_since.get_or_insert_with(std::time::Instant::now);
            } else {
                blocked_since = None;
            }
            let limit = stuck_limit_s();
            let why = if blocked_since.map_or(false, |b| b.elapsed() > Duration::from_secs(limit)) && used < 1.0 {
                Some("blocked in a system call outside the simulation")
            } else if used > (limit / 2) as f64 {
                Some("spinning without reaching a scheduling point")
            } else if t0.elapsed() > Duration::from_secs(30 * limit) {
                Some("not back after half an hour")
            } else {
                None
            };
            if let Some(why) = why {
                // The thread cannot be unwound, so the process reports and leaves (exit 71); the parent
                // turns that into a `task_stuck` finding with its own replay file.
                let label = format!("task {t} (started by {:?})", g.tasks[t as usize].parent);
                let last: Vec<String> = g.trace.as_ref().map(|tr| tr.iter().rev().take(6).rev().cloned().collect()).unwrap_or_default();
                eprintln!("{label} is stuck: {why} ({:.0} s of real time, {used:.1} s of CPU, kernel state {state}); last events: {last:?}", t0.elapsed().as_secs_f64());
                std::process::exit(71);
            }
        }
        clear_fsize_limit();
        g
    }

    /// The driver loop: runs until nothing is left to do, a cap is hit or a monitor fires.
    pub fn run(&self, step_cap: u64, time_cap: Ns) -> EndReason {
        let mut g = self.lock();
        loop {
            if g.violation.is_some() {
                return EndReason::Violation;
            }
            if g.stats.steps >= step_cap {
                return EndReason::StepCap;
            }
            let item = match g.heap.pop() {
                Some(Reverse(i)) => i,
                None => return EndReason::Quiescent,
            };
            g.stats.steps += 1;
            if item.at > g.now {
                g.now = item.at;
            }
            if g.now - BOOT_NS > time_cap {
                return EndReason::TimeCap;
            }
            match item.kind {
                EvKind::Resume { task, token, why } => {
                    let t = &mut g.tasks[task as usize];
                    if (t.state == TState::Blocked || t.state == TState::Created) && t.token == token {
                        t.wake = why;
                        t.token += 1;
                        t.state = TState::Running;
                        g = self.run_task(g, task);
                    }
                }
                EvKind::Deliver { dgram, dst, src, data } => g.deliver(dgram, dst, src, data),
                EvKind::Timer { task, token } => {
                    let t = &g.tasks[task as usize];
                    if t.state == TState::Blocked && t.token == token {
                        // timers fire straight away (their lateness was added when armed)
                        let t = &mut g.tasks[task as usize];
                        t.wake = Wake::Timeout;
                        t.token += 1;
                        t.state = TState::Running;
                        g = self.run_task(g, task);
                    }
                }
                EvKind::PeerTimer { peer, token } => {
                    if token == u64::MAX {
                        g.start_peer_now(peer);
                    } else {
                        g.call_peer(peer, |p, cx| p.on_timer(cx, token));
                    }
                }
            }
        }
    }

    /// Runs end-of-history checks, then releases every parked thread and waits for them.
    pub fn finish(&self, end: EndReason) {
        clear_fsize_limit();
        {
            let mut g = self.lock();
            if g.violation.is_none() {
                let mut ms = std::mem::take(&mut g.monitors);
                for m in ms.iter_mut() {
                    if let Some(mut v) = m.at_end(&g, end) {
                        v.at_seq = g.seq;
                        if g.violation.is_none() {
                            g.violation = Some(v);
                        }
                    }
                }
                g.monitors = ms;
            }
            g.shutdown = true;
            for t in g.tasks.iter() {
                t.cv.notify_all();
            }
        }
        // wait for all threads to leave
        let mut g = self.lock();
        let mut spins = 0;
        while g.live_threads > 0 {
            let (g2, to) = self.driver_cv.wait_timeout(g, Duration::from_millis(200)).unwrap_or_else(|e| e.into_inner());
            g = g2;
            if to.timed_out() {
                spins += 1;
                for t in g.tasks.iter() {
                    t.cv.notify_all();
                }
                if spins > 100 {
                    g.harness_error = Some("threads did not leave at shutdown".into());
                    break;
                }
            }
        }
        // drop peers and monitors held by the world? keep: results are read after finish
    }

    /// Task side: give control back to the driver and wait to be resumed.
    fn block<'a>(&'a self, mut g: MutexGuard<'a, Inner>, me: TaskId) -> MutexGuard<'a, Inner> {
        g.tasks[me as usize].state = TState::Blocked;
        g.running = None;
        self.driver_cv.notify_one();
        let cv = g.tasks[me as usize].cv.clone();
        loop {
            if g.shutdown {
                drop(g);
                std::panic::resume_unwind(Box::new(Shutdown));
            }
            if g.running == Some(me) {
                break;
            }
            g = cv.wait(g).unwrap_or_else(|e| e.into_inner());
        }
        let t = &mut g.tasks[me as usize];
        t.wait_ep = None;
        t.wait_chan = None;
        t.wait_join = None;
        t.deadline = None;
        g
    }

    /// A plain scheduling point: the task becomes runnable again after a scheduler-chosen delay.
    fn yield_point<'a>(&'a self, mut g: MutexGuard<'a, Inner>, me: TaskId) -> MutexGuard<'a, Inner> {
        g.make_runnable(me, Wake::Ready);
        self.block(g, me)
    }

    fn actor(&self) -> Actor {
        match my_task() {
            Some(t) => Actor::Task(t),
            None => Actor::Driver,
        }
    }

    fn shutting_down(g: &Inner) -> bool {
        g.shutdown
    }
}

fn dur_ns(d: Duration) -> Ns {
    d.as_nanos().min(u64::MAX as u128 / 4) as Ns
}

impl Backend for World {
    fn now_ns(&self) -> i128 {
        let mut g = self.lock();
        g.tick();
        g.now as i128
    }

    fn sleep(&self, d: Duration) {
        let me = match my_task() {
            Some(t) => t,
            None => return,
        };
        let mut g = self.lock();
        if World::shutting_down(&g) {
            return;
        }
        g.tick();
        let ns = dur_ns(d);
        g.emit(Ev::Sleep { task: me, ns });
        let late = g.lateness();
        let token = g.tasks[me as usize].token;
        let at = g.now + ns + late;
        g.push(at, EvKind::Resume { task: me, token, why: Wake::Timeout });
        let _g = self.block(g, me);
    }

    fn task_create(&self) -> TaskId {
        let mut g = self.lock();
        g.tick();
        let t = g.tasks.len() as TaskId;
        let parent = self.actor();
        g.tasks.push(TaskSt {
            state: TState::Created,
            parent,
            token: 0,
            wake: Wake::Start,
            wait_ep: None,
            wait_chan: None,
            wait_join: None,
            deadline: None,
            panic: None,
            os_tid: 0,
            cv: Arc::new(Condvar::new()),
        });
        g.live_threads += 1;
        g.emit(Ev::Spawn { task: t, parent });
        if !g.shutdown {
            g.make_runnable(t, Wake::Start);
        }
        t
    }

    fn task_begin(&self, t: TaskId) {
        MY_TASK.with(|c| c.set(Some(t)));
        let mut g = self.lock();
        g.tasks[t as usize].os_tid = os_tid();
        let cv = g.tasks[t as usize].cv.clone();
        loop {
            if g.shutdown {
                drop(g);
                std::panic::resume_unwind(Box::new(Shutdown));
            }
            if g.running == Some(t) {
                break;
            }
            g = cv.wait(g).unwrap_or_else(|e| e.into_inner());
        }
        g.emit(Ev::Begin { task: t });
    }

    fn task_end(&self, t: TaskId, panic: Option<String>) {
        let mut g = self.lock();
        let was_shutdown = g.shutdown;
        g.tasks[t as usize].state = TState::Ended;
        if !was_shutdown {
            g.tick();
            g.tasks[t as usize].panic = panic.clone();
            g.emit(Ev::End { task: t, panic });
            // wake joiners
            let joiners: Vec<TaskId> = g
                .tasks
                .iter()
                .enumerate()
                .filter(|(_, x)| x.state == TState::Blocked && x.wait_join == Some(t))
                .map(|(i, _)| i as TaskId)
                .collect();
            for j in joiners {
                g.make_runnable(j, Wake::Joined);
            }
            if g.running == Some(t) {
                g.running = None;
            }
        }
        g.live_threads -= 1;
        MY_TASK.with(|c| c.set(None));
        self.driver_cv.notify_one();
    }

    fn task_join(&self, target: TaskId) {
        let me = match my_task() {
            Some(t) => t,
            None => return,
        };
        let mut g = self.lock();
        if World::shutting_down(&g) {
            return;
        }
        g.tick();
        g.emit(Ev::Join { task: me, target });
        while g.tasks[target as usize].state != TState::Ended {
            g.tasks[me as usize].wait_join = Some(target);
            g = self.block(g, me);
        }
    }

    fn udp_bind(&self, a: SocketAddr) -> io::Result<SockId> {
        let mut g = self.lock();
        g.tick();
        let actor = self.actor();
        let ep = g.open_endpoint(actor, a, None)?;
        g.socks.push(Some(ep));
        Ok((g.socks.len() - 1) as SockId)
    }

    fn udp_clone(&self, s: SockId) -> io::Result<SockId> {
        let mut g = self.lock();
        g.tick();
        let ep = g.sock_ep(s)?;
        g.eps[ep].refs += 1;
        g.socks.push(Some(ep));
        Ok((g.socks.len() - 1) as SockId)
    }

    fn udp_close(&self, s: SockId) {
        let mut g = self.lock();
        if let Ok(ep) = g.sock_ep(s) {
            g.socks[s as usize] = None;
            g.eps[ep].refs -= 1;
            if g.eps[ep].refs == 0 && !g.shutdown {
                let actor = self.actor();
                g.close_endpoint(actor, ep);
            }
        }
    }

    fn udp_connect(&self, s: SockId, peer: SocketAddr) -> io::Result<()> {
        let mut g = self.lock();
        g.tick();
        let ep = g.sock_ep(s)?;
        if g.eps[ep].addr.is_ipv6() != peer.is_ipv6() {
            return Err(io::Error::new(io::ErrorKind::InvalidInput, "address family mismatch"));
        }
        g.eps[ep].connected = Some(peer);
        let actor = self.actor();
        g.emit(Ev::Connect { actor, ep, peer });
        Ok(())
    }

    fn udp_send(&self, s: SockId, buf: &[u8], to: Option<SocketAddr>) -> io::Result<usize> {
        let mut g = self.lock();
        if g.shutdown {
            return Err(io::Error::new(io::ErrorKind::Other, "shutdown"));
        }
        g.tick();
        let ep = g.sock_ep(s)?;
        let actor = self.actor();
        g.net_send(actor, ep, to, buf)
    }

    fn udp_recv(&self, s: SockId, buf: &mut [u8]) -> io::Result<(usize, SocketAddr)> {
        let me = my_task().expect("udp_recv outside a simulated task");
        let mut g = self.lock();
        if g.shutdown {
            drop(g);
            std::panic::resume_unwind(Box::new(Shutdown));
        }
        g.tick();
        let ep = g.sock_ep(s)?;
        g.emit(Ev::RecvCall { task: me, ep });
        let timeout = g.eps[ep].read_timeout;
        // failing syscall (EINTR-like), only on sockets that have a read timeout (transfer sockets)
        if timeout.is_some() && g.cfg.recv_err_w > 0 && g.faults_allowed() {
            let w = [1000 - g.cfg.recv_err_w.min(999), g.cfg.recv_err_w];
            if g.choices.choose("recv.err", &w) == 1 {
                g.use_budget("recv-err");
                g.emit(Ev::RecvRet { task: me, ep, res: RecvRes::Err(io::ErrorKind::Interrupted) });
                g = self.yield_point(g, me);
                drop(g);
                return Err(io::Error::new(io::ErrorKind::Interrupted, "injected EINTR"));
            }
        }
        let deadline = timeout.map(|d| g.now + d);
        let mut timer_armed = false;
        loop {
            if let Some(k) = g.eps[ep].pending_err.take() {
                g.emit(Ev::RecvRet { task: me, ep, res: RecvRes::Err(k) });
                g = self.yield_point(g, me);
                drop(g);
                return Err(io::Error::new(k, "connection refused"));
            }
            if !g.eps[ep].queue.is_empty() {
                // data is there: still a scheduling point before the call returns
                g = self.yield_point(g, me);
                if let Some((data, from, dgram)) = g.eps[ep].queue.pop_front() {
                    let n = data.len().min(buf.len());
                    buf[..n].copy_from_slice(&data[..n]);
                    let seen: Arc<[u8]> = if n == data.len() { data.clone() } else { Arc::from(&data[..n]) };
                    g.tick();
                    g.emit(Ev::RecvRet { task: me, ep, res: RecvRes::Data { from, data: seen, full_len: data.len(), dgram } });
                    return Ok((n, from));
                }
                continue;
            }
            if let Some(d) = deadline {
                if g.now >= d && timer_armed {
                    g.tick();
                    g.emit(Ev::RecvRet { task: me, ep, res: RecvRes::Timeout });
                    return Err(io::Error::new(io::ErrorKind::WouldBlock, "timed out"));
                }
                if !timer_armed {
                    let late = g.lateness();
                    let token = g.tasks[me as usize].token;
                    g.push(d + late, EvKind::Timer { task: me, token });
                    timer_armed = true;
                } else {
                    // woken early without data (e.g. datagram filtered): re-arm for the same deadline
                    let token = g.tasks[me as usize].token;
                    let at = d.max(g.now) + US;
                    g.push(at, EvKind::Timer { task: me, token });
                }
            }
            g.tasks[me as usize].wait_ep = Some(ep);
            g.tasks[me as usize].deadline = deadline;
            g = self.block(g, me);
        }
    }

    fn udp_local(&self, s: SockId) -> io::Result<SocketAddr> {
        let g = self.lock();
        let ep = g.sock_ep(s)?;
        Ok(g.eps[ep].addr)
    }

    fn udp_peer(&self, s: SockId) -> io::Result<SocketAddr> {
        let g = self.lock();
        let ep = g.sock_ep(s)?;
        g.eps[ep].connected.ok_or_else(|| io::Error::new(io::ErrorKind::NotConnected, "not connected"))
    }

    fn udp_set_read_timeout(&self, s: SockId, d: Option<Duration>) -> io::Result<()> {
        let mut g = self.lock();
        g.tick();
        let ep = g.sock_ep(s)?;
        if let Some(d) = d {
            if d.is_zero() {
                return Err(io::Error::new(io::ErrorKind::InvalidInput, "cannot set a 0 duration timeout"));
            }
        }
        g.eps[ep].read_timeout = d.map(dur_ns);
        Ok(())
    }

    fn udp_set_write_timeout(&self, s: SockId, d: Option<Duration>) -> io::Result<()> {
        let mut g = self.lock();
        g.tick();
        let _ = g.sock_ep(s)?;
        if let Some(d) = d {
            if d.is_zero() {
                return Err(io::Error::new(io::ErrorKind::InvalidInput, "cannot set a 0 duration timeout"));
            }
        }
        Ok(())
    }

    fn chan_new(&self) -> ChanId {
        let mut g = self.lock();
        g.chans += 1;
        g.chans
    }

    fn chan_notify(&self, c: ChanId, what: &'static str) {
        let mut g = self.lock();
        if g.shutdown {
            return;
        }
        g.tick();
        let actor = self.actor();
        g.emit(Ev::ChanNotify { actor, chan: c, what });
        let mut found = None;
        for (i, t) in g.tasks.iter().enumerate() {
            if t.state == TState::Blocked && t.wait_chan == Some(c) {
                found = Some(i as TaskId);
                break;
            }
        }
        if let Some(t) = found {
            g.make_runnable(t, Wake::Notify);
        }
    }

    fn chan_wait(&self, c: ChanId, timeout: Duration) -> bool {
        let me = my_task().expect("chan_wait outside a simulated task");
        let mut g = self.lock();
        if g.shutdown {
            drop(g);
            std::panic::resume_unwind(Box::new(Shutdown));
        }
        g.tick();
        let late = g.lateness();
        let token = g.tasks[me as usize].token;
        let d = g.now + dur_ns(timeout);
        g.push(d + late, EvKind::Timer { task: me, token });
        g.tasks[me as usize].wait_chan = Some(c);
        g.tasks[me as usize].deadline = Some(d);
        g = self.block(g, me);
        let timed_out = g.tasks[me as usize].wake == Wake::Timeout;
        g.tick();
        g.emit(Ev::ChanWait { task: me, chan: c, timed_out });
        !timed_out
    }

    fn chan_trace(&self, c: ChanId, what: &'static str) {
        let mut g = self.lock();
        if g.shutdown {
            return;
        }
        g.tick();
        let actor = self.actor();
        g.emit(Ev::ChanTrace { actor, chan: c, what });
        if what == "recv-ok" {
            if let Actor::Task(me) = actor {
                let _g = self.yield_point(g, me);
            }
        }
    }

    fn fs_point(&self, op: &'static str, path: &Path) {
        let mut g = self.lock();
        if g.shutdown {
            return;
        }
        g.tick();
        let actor = self.actor();
        g.emit(Ev::Fs { task: actor, op, path: path.to_path_buf() });
        if let Actor::Task(me) = actor {
            if (op == "open" || op == "create") && is_fifo(path) {
                // open(2) of a FIFO without a process at the other end blocks: the real call is never reached, the task
                // stays parked until the run is torn down
                g.emit(Ev::Fs { task: actor, op: "open-blocks-on-fifo", path: path.to_path_buf() });
                g.tasks[me as usize].token += 1;
                let _g = self.block(g, me);
                return;
            }
            let _g = self.yield_point(g, me);
        }
    }

    fn disk_write_point(&self, file: &mut File, data: &[u8]) -> io::Result<()> {
        let mut g = self.lock();
        clear_fsize_limit();
        if g.shutdown {
            return Ok(());
        }
        g.tick();
        let actor = self.actor();
        if g.disk_full && !data.is_empty() {
            g.emit(Ev::DiskWrite { task: actor, len: data.len(), fault: Some(("disk-full", 0)) });
            if let Actor::Task(me) = actor {
                let _g = self.yield_point(g, me);
            }
            return Err(io::Error::new(io::ErrorKind::Other, "injected ENOSPC (the device filled up earlier)"));
        }
        let mut fault = None;
        if g.cfg.disk_w > 0 && g.faults_allowed() && !data.is_empty() {
            let w = [1000 - g.cfg.disk_w.min(999), g.cfg.disk_w];
            if g.choices.choose("disk.fault", &w) == 1 {
                let kind = g.choices.range("disk.fault.kind", 3);
                let n = if kind == 0 { 0 } else { 1 + g.choices.range("disk.fault.torn", data.len().max(2) as u32 - 1) as usize };
                fault = Some((["disk-write-err", "torn-write", "short-write"][kind as usize], n.min(data.len().saturating_sub(1))));
            }
        }
        if let Some(("short-write", n)) = fault {
            if n >= 1 {
                // The device fills up inside this block: the real write(2) that follows stores n bytes and
                // says so (a short count, no error); every later write fails. Done with the file size limit
                // of the process, which is safe because exactly one simulated thread runs at a time and the
                // limit is lifted as soon as control comes back to the simulator.
                g.use_budget("short-write");
                g.disk_full = true;
                g.emit(Ev::DiskWrite { task: actor, len: data.len(), fault });
                if let Actor::Task(me) = actor {
                    let _g = self.yield_point(g, me);
                }
                let at = file.metadata().map(|m| m.len()).unwrap_or(0);
                set_fsize_limit(at + n as u64);
                return Ok(());
            }
            fault = Some(("disk-write-err", 0));
        }
        if let Some((k, n)) = fault {
            g.use_budget(k);
            let _ = file.write_all(&data[..n]);
            g.emit(Ev::DiskWrite { task: actor, len: data.len(), fault });
            if let Actor::Task(me) = actor {
                let _g = self.yield_point(g, me);
            }
            return Err(io::Error::new(io::ErrorKind::Other, if k == "torn-write" { "injected ENOSPC after partial write" } else { "injected EIO" }));
        }
        g.emit(Ev::DiskWrite { task: actor, len: data.len(), fault: None });
        if let Actor::Task(me) = actor {
            let _g = self.yield_point(g, me);
        }
        Ok(())
    }
}

pub fn is_fifo(path: &Path) -> bool {
    use std::os::unix::fs::FileTypeExt;
    std::fs::metadata(path).map(|m| m.file_type().is_fifo()).unwrap_or(false)
}

pub fn make_fifo(path: &Path) {
    use std::os::unix::ffi::OsStrExt;
    extern "C" {
        fn mkfifo(path: *const std::os::raw::c_char, mode: u32) -> i32;
    }
    let c = std::ffi::CString::new(path.as_os_str().as_bytes()).expect("path");
    let rc = unsafe { mkfifo(c.as_ptr(), 0o644) };
    assert!(rc == 0, "mkfifo {} failed", path.display());
}

// file size limit of the process (RLIMIT_FSIZE), used to make one real write(2) come back short
#[repr(C)]
struct RLimit {
    cur: u64,
    max: u64,
}
extern "C" {
    fn getrlimit(resource: i32, r: *mut RLimit) -> i32;
    fn setrlimit(resource: i32, r: *const RLimit) -> i32;
    fn signal(sig: i32, handler: usize) -> usize;
}
const RLIMIT_FSIZE: i32 = 1;
const SIGXFSZ: i32 = 25;
static FSIZE_LIMITED: std::sync::atomic::AtomicBool = std::sync::atomic::AtomicBool::new(false);

fn set_fsize_limit(n: u64) {
    unsafe {
        signal(SIGXFSZ, 1); // SIG_IGN: the write reports EFBIG instead of killing the process
        let mut r = RLimit { cur: 0, max: 0 };
        if getrlimit(RLIMIT_FSIZE, &mut r) == 0 {
            r.cur = n.min(r.max);
            setrlimit(RLIMIT_FSIZE, &r);
        }
    }
    FSIZE_LIMITED.store(true, std::sync::atomic::Ordering::SeqCst);
}

pub fn clear_fsize_limit() {
    if FSIZE_LIMITED.swap(false, std::sync::atomic::Ordering::SeqCst) {
        unsafe {
            let mut r = RLimit { cur: 0, max: 0 };
            if getrlimit(RLIMIT_FSIZE, &mut r) == 0 {
                r.cur = r.max;
                setrlimit(RLIMIT_FSIZE, &r);
            }
        }
    }
}

/// Real seconds a released thread may take to reach its next scheduling point before the run is
/// declared stuck. One step of real code takes microseconds to (for gigabyte windows) a second or two.
pub fn stuck_limit_s() -> u64 {
    std::env::var("VERIF_STUCK_S").ok().and_then(|v| v.parse().ok()).unwrap_or(60)
}

pub fn os_tid() -> i64 {
    extern "C" {
        fn syscall(num: i64, ...) -> i64;
    }
    unsafe { syscall(186) } // SYS_gettid on x86_64
}

/// (user + system CPU seconds, scheduler state letter) of one thread of this process.
fn thread_cpu_and_state(tid: i64) -> Option<(f64, char)> {
    let s = std::fs::read_to_string(format!("/proc/self/task/{tid}/stat")).ok()?;
    // the command name is in parentheses and may hold spaces: fields are counted after the last ')'
    let rest = &s[s.rfind(')')? + 1..];
    let f: Vec<&str> = rest.split_whitespace().collect();
    let state = f.first()?.chars().next()?;
    let utime: f64 = f.get(11)?.parse().ok()?;
    let stime: f64 = f.get(12)?.parse().ok()?;
    Some(((utime + stime) / 100.0, state))
}
