//! Monitors over server-side transfers: one tracker per worker task, rule groups per property.
use crate::common::{Attr, WRecv};
use crate::peers::{Reader, Status, Writer};
use crate::rfc::{self, Pkt};
use crate::world::{Actor, EndReason, Ev, Fate, Inner, Monitor, Ns, Stamp, Violation, SEC};
use std::any::Any;
use std::collections::BTreeMap;
use std::net::SocketAddr;
use std::path::PathBuf;
use std::sync::Arc;
use tftpd::verif::TaskId;

#[derive(Clone, Copy, PartialEq, Eq, Debug)]
pub enum Kind {
    Download,
    Upload,
}

#[derive(Clone)]
pub struct XferSpec {
    pub client: SocketAddr,
    pub peer: usize,
    pub kind: Kind,
    pub content: Arc<Vec<u8>>,
    /// server-side path of the file
    pub path: PathBuf,
    /// the peer only sends protocol-conformant datagrams
    pub conformant: bool,
    pub dally: bool,
    /// ceil(peer retransmission timer / server timeout): how many server-side timeouts one
    /// lost datagram can cost before the peer repairs it
    pub timeout_ratio: u32,
}

#[derive(Clone, Copy, Default, Debug)]
pub struct Rules {
    pub c01: bool,
    pub c02: bool,
    pub c04: bool,
    pub c07: bool,
    pub c08: bool,
    /// C09: the transfer uses exactly the acknowledged values (burst length, ACK cadence, timeout)
    pub c09: bool,
}

#[derive(Clone, Copy, PartialEq, Eq, Debug)]
enum LastRecv {
    None,
    ValidAck,
    DupStale,
    Future,
    Timeout,
    Err,
    Other,
    Error,
    Data,
}

#[derive(Clone, Debug, Default)]
struct Neg {
    oack: bool,
    b: usize,
    w: u64,
    tmo: Ns,
}

fn neg_from_oack(o: &[(String, String)]) -> Neg {
    let mut n = Neg { oack: true, b: 512, w: 1, tmo: 5 * SEC };
    for (k, v) in o {
        let val: u64 = v.parse().unwrap_or(0);
        match k.to_ascii_lowercase().as_str() {
            "blksize" => n.b = val as usize,
            "windowsize" => n.w = val,
            "timeout" => n.tmo = val.saturating_mul(SEC),
            _ => {}
        }
    }
    n
}

struct Tr {
    x: SocketAddr,
    spec: usize,
    neg: Neg,
    // download (server sends)
    acked: u64,
    highest_sent: u64,
    burst_open: bool,
    burst_len: u64,
    last_tx: Ns,
    sent_any: bool,
    final_acked: bool,
    // upload (server receives)
    inorder: u64,
    acked_last: u64,
    since_ack: u64,
    ack_due: bool,
    final_received: bool,
    final_ack_copies: u64,
    verified_len: usize,
    // common
    last_recv: LastRecv,
    judged_dupstale: bool,
    error_seen: bool,
    ended: bool,
    panicked: bool,
    consecutive_fail: u32,
    fails_in_window: u32,
    max_fails_in_window: u32,
    no_verdict_c08: bool,
    last_action_was_final: bool,
    fs_cleanup_seen: bool,
    call_t: Ns,
    recvs_since_burst: u32,
    /// cumulative fault weight at this worker's last progress event (its retry budget is per window)
    fw_mark: u32,
    /// a send syscall of this worker failed (it may legitimately give up at once)
    send_failed: bool,
    disk_failed: bool,
}

pub struct XferMon {
    pub prop: &'static str,
    pub rules: Rules,
    pub specs: Vec<XferSpec>,
    attr: Attr,
    pending_neg: BTreeMap<SocketAddr, Neg>,
    tr: BTreeMap<TaskId, Tr>,
    /// server's --duplicate-packets N
    pub dup: u64,
    /// C04: sum of the fault weights injected so far
    fault_weight: u32,
    final_ack_faulted: BTreeMap<SocketAddr, bool>,
    /// clients whose ERROR datagram has reached a server endpoint
    error_at_server: BTreeMap<SocketAddr, bool>,
    /// which peer currently speaks from a client address (endpoints can be reused by a later transfer)
    active_peer: BTreeMap<SocketAddr, usize>,
    pub probes: BTreeMap<&'static str, u64>,
    inconclusive: bool,
    pub states: std::collections::BTreeSet<u64>,
}

fn slice_of(content: &[u8], b: usize, i: u64) -> &[u8] {
    let st = (i as usize - 1).saturating_mul(b);
    if st >= content.len() {
        &[]
    } else {
        &content[st..(st + b).min(content.len())]
    }
}

/// File length plus the bytes in [from, to) (shorter if the file is).
fn read_range(path: &std::path::Path, from: usize, to: usize) -> std::io::Result<(u64, Vec<u8>)> {
    use std::io::{Read, Seek, SeekFrom};
    let mut f = std::fs::File::open(path)?;
    let flen = f.metadata()?.len();
    f.seek(SeekFrom::Start(from as u64))?;
    let mut buf = vec![0u8; to.saturating_sub(from)];
    let mut got = 0;
    while got < buf.len() {
        let n = f.read(&mut buf[got..])?;
        if n == 0 {
            break;
        }
        got += n;
    }
    buf.truncate(got);
    Ok((flen, buf))
}

fn first_diff(a: &[u8], b: &[u8]) -> usize {
    a.iter().zip(b.iter()).position(|(x, y)| x != y).unwrap_or(a.len().min(b.len()))
}

impl XferMon {
    pub fn new(prop: &'static str, rules: Rules, specs: Vec<XferSpec>, dup: u64) -> XferMon {
        XferMon {
            prop,
            rules,
            specs,
            attr: Attr::default(),
            pending_neg: BTreeMap::new(),
            tr: BTreeMap::new(),
            dup,
            fault_weight: 0,
            final_ack_faulted: BTreeMap::new(),
            error_at_server: BTreeMap::new(),
            active_peer: BTreeMap::new(),
            probes: BTreeMap::new(),
            inconclusive: false,
            states: Default::default(),
        }
    }

    fn probe(&mut self, k: &'static str) {
        *self.probes.entry(k).or_insert(0) += 1;
    }

    fn v(&self, rule: &str, detail: String) -> Violation {
        Violation::new(self.prop, &format!("{}.{}", self.prop, rule), detail)
    }

    fn vk(&self, rule: &str, kind: Kind, detail: String) -> Violation {
        self.v(rule, detail).sig("role", if kind == Kind::Download { "download" } else { "upload" })
    }

    fn spec_of(&self, x: SocketAddr) -> Option<usize> {
        if let Some(p) = self.active_peer.get(&x) {
            if let Some(i) = self.specs.iter().position(|s| s.client == x && s.peer == *p) {
                return Some(i);
            }
        }
        self.specs.iter().position(|s| s.client == x)
    }

    fn n_final(&self, t: &Tr) -> u64 {
        let s = &self.specs[t.spec];
        (s.content.len() / t.neg.b.max(1)) as u64 + 1
    }

    fn ensure(&mut self, task: TaskId) -> bool {
        if self.tr.contains_key(&task) {
            return true;
        }
        let x = match self.attr.client_of(task) {
            Some(x) => x,
            None => return false,
        };
        let spec = match self.spec_of(x) {
            Some(s) => s,
            None => return false,
        };
        let neg = self.pending_neg.remove(&x).unwrap_or(Neg { oack: false, b: 512, w: 1, tmo: 5 * SEC });
        self.tr.insert(
            task,
            Tr {
                x,
                spec,
                neg,
                acked: 0,
                highest_sent: 0,
                burst_open: false,
                burst_len: 0,
                last_tx: 0,
                sent_any: false,
                final_acked: false,
                inorder: 0,
                acked_last: 0,
                since_ack: 0,
                ack_due: false,
                final_received: false,
                final_ack_copies: 0,
                verified_len: 0,
                last_recv: LastRecv::None,
                judged_dupstale: true,
                error_seen: false,
                ended: false,
                panicked: false,
                consecutive_fail: 0,
                fails_in_window: 0,
                max_fails_in_window: 0,
                no_verdict_c08: false,
                last_action_was_final: false,
                fs_cleanup_seen: false,
                call_t: 0,
                recvs_since_burst: 0,
                fw_mark: self.fault_weight,
                send_failed: false,
                disk_failed: false,
            },
        );
        true
    }

    fn state_hash(&mut self, task: TaskId) {
        if let Some(t) = self.tr.get(&task) {
            let s = &self.specs[t.spec];
            let outstanding = (t.highest_sent - t.acked).min(9);
            let h = crate::choice::mix(
                crate::choice::mix(s.kind as u64 + 1, outstanding * 16 + (t.fails_in_window as u64).min(7)),
                (t.last_recv as u64) * 64 + (t.final_acked as u64) * 2 + (t.final_received as u64) * 4 + (t.error_seen as u64) * 8 + (t.since_ack.min(7)) * 1024,
            );
            self.states.insert(h);
        }
    }

    // --------------------------------------------------------------------------------------
    fn on_server_send(&mut self, st: &Stamp, actor: Actor, dst: SocketAddr, data: &[u8]) -> Option<Violation> {
        let spec_i = self.spec_of(dst)?;
        let task = match actor {
            Actor::Task(t) => t,
            _ => return None,
        };
        let pkt = rfc::decode(data);
        if Some(task) == self.attr.listener {
            if let Some(Pkt::Oack(o)) = &pkt {
                self.pending_neg.insert(dst, neg_from_oack(o));
            }
            return None;
        }
        if !self.ensure(task) {
            return None;
        }
        let kind = self.specs[spec_i].kind;
        let rules = self.rules;
        let dupn = self.dup;
        let fw_now = self.fault_weight;
        let n_final = self.n_final(&self.tr[&task]);
        let content = self.specs[spec_i].content.clone();
        let path = self.specs[spec_i].path.clone();
        let mut probes: Vec<&'static str> = vec![];
        let mut viol: Option<(String, String)> = None;
        {
            let t = self.tr.get_mut(&task).unwrap();
            if t.x != dst {
                return None;
            }
            t.last_action_was_final = false;
            if rules.c07 && t.error_seen {
                viol = Some(("activity_after_error".into(), format!("task{task} sends {} after an ERROR was delivered to it", rfc::summary(data))));
            }
            match (kind, &pkt) {
                (Kind::Download, Some(Pkt::Data { n, payload })) => {
                    let b = t.neg.b.max(1);
                    let w = t.neg.w.max(1);
                    let wraps = n_final > 65535;
                    // which index does this number denote?
                    let idx: Option<u64> = if !wraps {
                        if *n >= 1 {
                            Some(*n as u64)
                        } else {
                            None
                        }
                    } else {
                        let d = n.wrapping_sub(t.acked as u16) as u64;
                        if d >= 1 {
                            Some(t.acked + d)
                        } else {
                            None
                        }
                    };
                    if rules.c07 && t.final_acked && viol.is_none() {
                        viol = Some(("emit_after_final_ack".into(), format!("task{task} sends {} after its final block {n_final} was acknowledged", rfc::summary(data))));
                    }
                    match idx {
                        None => {
                            if rules.c01 && viol.is_none() {
                                viol = Some(("bad_block_number".into(), format!("DATA number {n} denotes no block of the file (acked={}, final={n_final})", t.acked)));
                            }
                        }
                        Some(i) => {
                            if i > n_final {
                                if (rules.c01 || rules.c07 || rules.c09) && viol.is_none() {
                                    viol = Some((
                                        "block_beyond_final".into(),
                                        format!("DATA({n}) = block {i} with {} bytes, but the final block of the {}-byte file at blksize {b} is {n_final}", payload.len(), content.len()),
                                    ));
                                }
                            } else if (rules.c01 || rules.c09) && viol.is_none() {
                                let want = slice_of(&content, b, i);
                                if payload.as_slice() != want {
                                    viol = Some((
                                        "payload_mismatch".into(),
                                        format!(
                                            "DATA({n}) = block {i}: payload has {} bytes, file slice has {}; first difference at byte {}",
                                            payload.len(),
                                            want.len(),
                                            first_diff(payload, want)
                                        ),
                                    ));
                                }
                            }
                            if rules.c08 && viol.is_none() && !t.no_verdict_c08 && i <= t.acked {
                                viol = Some(("retransmits_acknowledged_block".into(), format!("block {i} sent again although ACK({}) was received: after ACK(k) transmission resumes at k+1", t.acked)));
                            }
                            if rules.c08 && viol.is_none() && i > t.acked + w {
                                viol = Some(("window_overrun".into(), format!("block {i} emitted while last acknowledged is {} and windowsize is {w}", t.acked)));
                            }
                            // burst accounting
                            if !t.burst_open {
                                t.burst_open = true;
                                t.burst_len = 0;
                                if t.sent_any {
                                    let by_ack = t.last_recv == LastRecv::ValidAck;
                                    let by_time = st.t.saturating_sub(t.last_tx) >= t.neg.tmo;
                                    if rules.c08 && viol.is_none() && !t.no_verdict_c08 {
                                        if by_ack && i != t.acked + 1 {
                                            viol = Some(("resume_not_after_ack".into(), format!("after ACK({}) transmission resumed at block {i}, expected {}", t.acked, t.acked + 1)));
                                        } else if !by_ack && !by_time {
                                            let since = st.t.saturating_sub(t.last_tx);
                                            if t.last_recv == LastRecv::DupStale {
                                                viol = Some((
                                                    "dup_ack_triggers_send".into(),
                                                    format!("a duplicate/stale ACK was followed by DATA block {i} only {} us after the last transmission (timeout {} s, windowsize {w})", since / 1000, t.neg.tmo / SEC),
                                                ));
                                            } else {
                                                viol = Some((
                                                    "unjustified_retransmission".into(),
                                                    format!("block {i} (re)sent {} us after the last transmission without an in-window ACK (last receive: {:?}, timeout {} s)", since / 1000, t.last_recv, t.neg.tmo / SEC),
                                                ));
                                            }
                                        }
                                    }
                                    if !by_ack && by_time {
                                        probes.push("timeout_retransmission");
                                        if rules.c09 && viol.is_none() && t.last_recv == LastRecv::Timeout && t.recvs_since_burst == 1 {
                                            let iv = st.t.saturating_sub(t.last_tx);
                                            if iv > t.neg.tmo + 10 * crate::world::MS {
                                                viol = Some(("retransmit_interval".into(), format!("retransmission {} ms after the last transmission; acknowledged timeout is {} s", iv / crate::world::MS, t.neg.tmo / SEC)));
                                            }
                                            probes.push("retransmit_interval_measured");
                                        }
                                    }
                                    if by_ack && i <= t.highest_sent {
                                        probes.push("gap_retransmission_after_partial_ack");
                                    }
                                }
                                t.judged_dupstale = true;
                            }
                            t.burst_len += 1;
                            t.recvs_since_burst = 0;
                            if rules.c07 && viol.is_none() && t.burst_len > w * (dupn + 1) {
                                viol = Some(("more_than_window_per_burst".into(), format!("{} DATA datagrams in one burst, windowsize {w}, copies {}", t.burst_len, dupn + 1)));
                            }
                            t.highest_sent = t.highest_sent.max(i.min(n_final + 2));
                        }
                    }
                    t.last_tx = st.t;
                    t.sent_any = true;
                }
                (Kind::Upload, Some(Pkt::Ack(n))) => {
                    let b = t.neg.b.max(1);
                    let d = n.wrapping_sub(t.acked_last as u16) as u64;
                    let k = t.acked_last + d;
                    if rules.c07 && viol.is_none() && t.final_ack_copies > dupn {
                        viol = Some(("emit_after_final_ack".into(), format!("task{task} sends ACK({n}) after the final acknowledgement was already emitted {} times", t.final_ack_copies)));
                    }
                    if rules.c02 && viol.is_none() && k > t.inorder {
                        viol = Some(("ack_not_received".into(), format!("ACK({n}) = block {k} emitted but only blocks 1..{} were received in sequence", t.inorder)));
                    }
                    if rules.c02 && viol.is_none() {
                        let want_len = ((k as usize).saturating_mul(b)).min(content.len());
                        let full_check = want_len <= 256 * 1024 || (t.final_received && k == t.inorder);
                        let from = if full_check { 0 } else { t.verified_len.min(want_len) };
                        match read_range(&path, from, want_len) {
                            Ok((flen, bytes)) => {
                                if flen != want_len as u64 || bytes[..] != content[from..want_len] {
                                    let fd = from + first_diff(&bytes, &content[from..want_len]);
                                    viol = Some((
                                        "ack_before_stored".into(),
                                        format!("at ACK({n}) = block {k} the file holds {flen} bytes, expected exactly the {want_len} bytes of blocks 1..{k}; first difference at byte {fd}"),
                                    ));
                                }
                                t.verified_len = want_len;
                            }
                            Err(e) => {
                                viol = Some(("ack_before_stored".into(), format!("at ACK({n}) the target file cannot be read: {e}")));
                            }
                        }
                    }
                    if d == 0 {
                        probes.push("re_ack_of_last_block");
                    }
                    if rules.c09 && viol.is_none() && d > 0 && !(t.final_received && k == t.inorder) && t.since_ack != t.neg.w.max(1) {
                        viol = Some(("ack_cadence".into(), format!("ACK({n}) after {} in-order blocks; acknowledged windowsize is {}", t.since_ack, t.neg.w)));
                    }
                    if rules.c09 && d > 0 {
                        probes.push("ack_cadence_measured");
                    }
                    if d > 0 {
                        t.fw_mark = fw_now;
                        t.fails_in_window = 0;
                    }
                    t.acked_last = k;
                    t.since_ack = 0;
                    t.ack_due = false;
                    if t.final_received && k == t.inorder {
                        t.final_ack_copies += 1;
                        t.last_action_was_final = true;
                    }
                }
                _ => {}
            }
        }
        for p in probes {
            self.probe(p);
        }
        self.state_hash(task);
        viol.map(|(r, d)| self.vk(&r, kind, d))
    }

    fn on_wrecv(&mut self, _st: &Stamp, task: TaskId, r: WRecv) -> Option<Violation> {
        if !self.ensure(task) {
            return None;
        }
        let rules = self.rules;
        let dupn = self.dup;
        let fw_now = self.fault_weight;
        let err_at_server = *self.error_at_server.get(&self.tr[&task].x).unwrap_or(&false);
        let n_final = self.n_final(&self.tr[&task]);
        let kind = self.specs[self.tr[&task].spec].kind;
        let mut probes: Vec<&'static str> = vec![];
        let mut viol: Option<(String, String)> = None;
        {
            let t = self.tr.get_mut(&task).unwrap();
            match r {
                WRecv::Call => {
                    if rules.c09 && kind == Kind::Download && t.burst_open && !t.error_seen {
                        let want = t.neg.w.max(1).min(n_final.saturating_sub(t.acked)) * (dupn + 1);
                        if t.burst_len != want {
                            viol = Some(("burst_not_windowsize".into(), format!("{} DATA datagrams were sent before the next receive; acknowledged windowsize {} (blocks left {}, copies {})", t.burst_len, t.neg.w, n_final.saturating_sub(t.acked), dupn + 1)));
                        }
                        probes.push("burst_measured");
                    }
                    t.call_t = _st.t;
                    t.recvs_since_burst += 1;
                    t.burst_open = false;
                    t.judged_dupstale = true;
                    if rules.c07 && t.error_seen {
                        viol = Some(("activity_after_error".into(), format!("task{task} starts another receive after an ERROR was delivered to it")));
                    }
                    if rules.c07 && viol.is_none() && kind == Kind::Download && t.final_acked {
                        viol = Some(("recv_after_final_ack".into(), format!("task{task} keeps receiving after its final block {n_final} was acknowledged")));
                    }
                    if rules.c07 && viol.is_none() && kind == Kind::Upload && t.final_ack_copies > 0 {
                        viol = Some(("recv_after_final_ack".into(), format!("task{task} keeps receiving after it acknowledged the final block")));
                    }
                    if rules.c08 && viol.is_none() && kind == Kind::Upload && t.ack_due {
                        viol = Some((
                            "ack_overdue".into(),
                            format!("task{task} went back to receiving with {} unacknowledged in-order blocks (windowsize {}, final received: {})", t.since_ack, t.neg.w, t.final_received),
                        ));
                    }
                    t.last_action_was_final = false;
                }
                WRecv::Timeout | WRecv::Err => {
                    if rules.c09 && matches!(r, WRecv::Timeout) {
                        let iv = _st.t.saturating_sub(t.call_t);
                        if iv < t.neg.tmo || iv > t.neg.tmo + 10 * crate::world::MS {
                            viol = Some(("receive_timeout_interval".into(), format!("a receive timed out after {} ms; acknowledged timeout is {} s", iv / crate::world::MS, t.neg.tmo / SEC)));
                        }
                        probes.push("receive_timeout_measured");
                    }
                    if rules.c07 && viol.is_none() && err_at_server && matches!(r, WRecv::Timeout) && !t.error_seen {
                        viol = Some(("error_not_acted_on".into(), format!("the peer's ERROR reached the server, yet task{task} waited through a whole receive timeout instead of ending at once")));
                    }
                    t.consecutive_fail += 1;
                    t.fails_in_window += 1;
                    t.max_fails_in_window = t.max_fails_in_window.max(t.fails_in_window);
                    t.last_recv = if matches!(r, WRecv::Timeout) { LastRecv::Timeout } else { LastRecv::Err };
                    if rules.c07 && t.consecutive_fail > 16 {
                        viol = Some(("unbounded_retry".into(), format!("task{task}: {} consecutive failed receives without giving up", t.consecutive_fail)));
                    }
                }
                WRecv::Data(bytes) => {
                    let pkt = rfc::decode(&bytes);
                    match (kind, pkt) {
                        (_, Some(Pkt::Error { code, .. })) if code <= 7 => {
                            t.error_seen = true;
                            t.last_recv = LastRecv::Error;
                            probes.push("error_delivered_to_worker");
                        }
                        (Kind::Download, Some(Pkt::Ack(n))) => {
                            let wraps = n_final > 65535;
                            // does it acknowledge an outstanding block?
                            let k: Option<u64> = if !wraps {
                                let k = n as u64;
                                if k > t.acked && k <= t.highest_sent {
                                    Some(k)
                                } else {
                                    None
                                }
                            } else {
                                let d = n.wrapping_sub(t.acked as u16) as u64;
                                if d >= 1 && t.acked + d <= t.highest_sent {
                                    Some(t.acked + d)
                                } else {
                                    None
                                }
                            };
                            match k {
                                Some(k) => {
                                    if k < t.highest_sent {
                                        probes.push("partial_window_ack");
                                        if t.highest_sent >= n_final {
                                            probes.push("partial_ack_after_eof");
                                        }
                                    }
                                    t.acked = k;
                                    t.fw_mark = fw_now;
                                    t.last_recv = LastRecv::ValidAck;
                                    t.consecutive_fail = 0;
                                    t.fails_in_window = 0;
                                    if k == n_final {
                                        t.final_acked = true;
                                    }
                                }
                                None => {
                                    if !t.sent_any && n == 0 && t.neg.oack {
                                        // acknowledgement of the OACK
                                        t.last_recv = LastRecv::Other;
                                    } else {
                                        let ku = n as u64;
                                        let future = if !wraps { ku > t.highest_sent } else { false };
                                        if future {
                                            t.last_recv = LastRecv::Future;
                                            t.no_verdict_c08 = true;
                                            probes.push("future_ack");
                                        } else {
                                            t.last_recv = LastRecv::DupStale;
                                            t.judged_dupstale = false;
                                            probes.push("dup_or_stale_ack");
                                            if t.neg.w == 65535 {
                                                probes.push("stale_ack_at_w65535");
                                            }
                                        }
                                    }
                                }
                            }
                        }
                        (Kind::Upload, Some(Pkt::Data { n, payload })) => {
                            if n == (t.inorder + 1) as u16 && !t.final_received {
                                t.inorder += 1;
                                t.since_ack += 1;
                                t.consecutive_fail = 0;
                                t.last_recv = LastRecv::Data;
                                if payload.len() < t.neg.b {
                                    t.final_received = true;
                                }
                                if t.final_received || t.since_ack >= t.neg.w.max(1) {
                                    t.ack_due = true;
                                }
                            } else {
                                t.last_recv = LastRecv::Other;
                                probes.push("out_of_order_or_duplicate_data");
                            }
                        }
                        _ => {
                            // anything else counts as a failed attempt in the worker's loop
                            t.last_recv = LastRecv::Other;
                            t.fails_in_window += 1;
                            t.max_fails_in_window = t.max_fails_in_window.max(t.fails_in_window);
                            probes.push("unexpected_packet_at_worker");
                        }
                    }
                }
            }
        }
        for p in probes {
            self.probe(p);
        }
        self.state_hash(task);
        viol.map(|(r, d)| self.vk(&r, kind, d))
    }

    fn on_end(&mut self, w: &Inner, task: TaskId, panic: &Option<String>) -> Option<Violation> {
        if !self.tr.contains_key(&task) {
            // a worker that ended before doing anything attributable (e.g. open failed)
            if !self.ensure(task) {
                return None;
            }
        }
        let rules = self.rules;
        let n_final_here = self.n_final(&self.tr[&task]);
        let kind = self.specs[self.tr[&task].spec].kind;
        let spec = self.specs[self.tr[&task].spec].clone();
        // the retry budget is per window: only faults injected since the worker's last progress count
        let fw = self.fault_weight - self.tr[&task].fw_mark.min(self.fault_weight);
        let faf = *self.final_ack_faulted.get(&spec.client).unwrap_or(&false);
        let mut viol: Option<(String, String)> = None;
        let mut inconclusive = false;
        let mut gave_up_at_budget = false;
        // negotiated values are bound per request: with several workers for one client they may be mixed up
        let only_worker_of_client = {
            let x = self.tr[&task].x;
            self.tr.values().filter(|o| o.x == x).count() == 1
        };
        {
            let t = self.tr.get_mut(&task).unwrap();
            t.ended = true;
            t.panicked = panic.is_some();
            if rules.c08 && !t.no_verdict_c08 && !t.judged_dupstale && t.last_recv == LastRecv::DupStale {
                viol = Some((
                    "dup_ack_aborts".into(),
                    format!("task{task} {} right after a duplicate/stale ACK (windowsize {})", if let Some(p) = panic { format!("panicked ({p})") } else { "ended".to_string() }, t.neg.w),
                ));
            }
            if (rules.c01 || rules.c07) && viol.is_none() && kind == Kind::Download && panic.is_none() && t.sent_any && t.last_recv == LastRecv::ValidAck && t.acked == t.highest_sent && t.highest_sent < n_final_here && !t.error_seen && !t.send_failed {
                viol = Some((
                    "missing_final_block".into(),
                    format!("task{task} ended as if done after ACK({}) although the final block {} (the first one shorter than blksize) was never sent", t.acked, n_final_here),
                ));
            }
            if rules.c07 && viol.is_none() && kind == Kind::Upload && t.final_ack_copies > 0 && t.inorder < n_final_here && spec.conformant {
                viol = Some((
                    "ended_before_final_block".into(),
                    format!("task{task} treated block {} as the final one and ended, but the upload has {} blocks (a block reached it shorter than it was sent)", t.inorder, n_final_here),
                ));
            }
            if (rules.c07 || rules.c02 || rules.c04) && viol.is_none() && kind == Kind::Upload && panic.is_none() && !t.fs_cleanup_seen && !t.final_received && !t.error_seen && only_worker_of_client {
                // the receive worker took its success path (no clean-up step) although the final block never reached it in sequence
                viol = Some((
                    "success_without_final_block".into(),
                    format!("task{task} ended reporting the upload as received after {} in-sequence blocks, none of them shorter than blksize {}: the final block never arrived (last ACK emitted: {})", t.inorder, t.neg.b, t.acked_last),
                ));
            }
            if rules.c08 && viol.is_none() && kind == Kind::Upload && t.ack_due && panic.is_none() && !t.error_seen && !t.send_failed && !t.disk_failed && only_worker_of_client {
                viol = Some((
                    "ended_without_due_ack".into(),
                    format!("task{task} ended with {} in-order blocks unacknowledged (windowsize {}, final block received: {})", t.since_ack, t.neg.w, t.final_received),
                ));
            }
            let ended_ok = match kind {
                Kind::Download => t.final_acked && t.last_recv == LastRecv::ValidAck && panic.is_none(),
                Kind::Upload => t.last_action_was_final && panic.is_none(),
            };
            if rules.c02 && viol.is_none() && kind == Kind::Upload && t.final_ack_copies > 0 {
                match std::fs::read(&spec.path) {
                    Ok(f) if f == *spec.content => {}
                    Ok(f) => {
                        viol = Some((
                            "final_file_mismatch".into(),
                            format!("after the final ACK the stored file has {} bytes, the upload had {}; first difference at byte {}", f.len(), spec.content.len(), first_diff(&f, &spec.content)),
                        ))
                    }
                    Err(e) => viol = Some(("final_file_mismatch".into(), format!("after the final ACK the stored file cannot be read: {e}"))),
                }
            }
            // the retry budget itself: a worker gives up only after six failed receive attempts since its
            // last progress (counted here at least as generously as the code counts them)
            let data_phase = match kind {
                Kind::Download => t.sent_any,
                Kind::Upload => true,
            };
            if (rules.c04 || rules.c07) && viol.is_none() && !ended_ok && panic.is_none() && data_phase && only_worker_of_client && !t.error_seen && !t.send_failed && !t.disk_failed
                && matches!(t.last_recv, LastRecv::Timeout | LastRecv::Err | LastRecv::Other)
                && (kind == Kind::Download || t.fs_cleanup_seen)
                && t.fails_in_window >= 6
            {
                gave_up_at_budget = true;
            }
            if (rules.c04 || rules.c07) && viol.is_none() && !ended_ok && panic.is_none() && data_phase && only_worker_of_client && !t.error_seen && !t.send_failed && !t.disk_failed
                && matches!(t.last_recv, LastRecv::Timeout | LastRecv::Err | LastRecv::Other)
                && t.fails_in_window < 6
                && (kind == Kind::Download || t.fs_cleanup_seen)
            {
                viol = Some((
                    "gave_up_below_retry_budget".into(),
                    format!("task{task} ({kind:?}) gave up after {} failed receive attempts since its last progress; the retry budget is 6 (last receive {:?})", t.fails_in_window, t.last_recv),
                ));
            }
            if rules.c04 && viol.is_none() && spec.conformant && !ended_ok {
                // the one permitted exception: the very last ACK was lost and its sender does not dally
                let peer_done = match kind {
                    Kind::Download => w.peer::<Reader>(spec.peer).map_or(false, |r| r.status == Status::Done),
                    Kind::Upload => false,
                };
                let exception = kind == Kind::Download && faf && !spec.dally && peer_done;
                if exception {
                    // permitted
                } else if fw <= 5 {
                    viol = Some((
                        "server_side_failed_below_budget".into(),
                        format!(
                            "task{task} ({:?} for {}) ended without completing{} although the faults injected since its last progress can account for at most {fw} failed receive attempts (< 6); worst window saw {} failed attempts; last receive {:?}",
                            kind,
                            spec.client,
                            if let Some(p) = panic { format!(" (panic: {p})") } else { String::new() },
                            t.max_fails_in_window,
                            t.last_recv
                        ),
                    ));
                } else {
                    inconclusive = true;
                }
            }
        }
        if inconclusive {
            self.inconclusive = true;
        }
        if gave_up_at_budget {
            self.probe("gave_up_after_six_failed_receives");
        }
        viol.map(|(r, d)| self.vk(&r, kind, d))
    }

    /// Upper bound on the failed receive attempts (on one side) one fault can explain.
    fn note_fault(&mut self, fate: Fate) {
        let r = self.specs.iter().map(|s| s.timeout_ratio).max().unwrap_or(1).max(1);
        self.fault_weight += match fate {
            Fate::Drop => r,
            Fate::Dup => 1,
            Fate::Delay => r,
            Fate::BigDelay => 3 + r,
            Fate::Late => 1 + r,
            _ => 0,
        };
    }
}

impl Monitor for XferMon {
    fn on_event(&mut self, w: &Inner, st: &Stamp, ev: &Ev) -> Option<Violation> {
        let norm = self.attr.feed(ev);
        if let Ev::Spawn { task, .. } = ev {
            // bind the negotiated values of the request being handled to the new worker right away
            self.ensure(*task);
        }
        if let Some((task, r)) = norm {
            if let Some(v) = self.on_wrecv(st, task, r) {
                return Some(v);
            }
        }
        match ev {
            Ev::Send { actor, dst, data, fate, .. } => {
                if let Actor::Task(_) = actor {
                    // judge the datagram first: a fault on an ACK belongs to the window that follows it
                    let r = self.on_server_send(st, *actor, *dst, data);
                    if *fate != Fate::Deliver {
                        self.note_fault(*fate);
                    }
                    return r;
                }
                if *fate != Fate::Deliver {
                    self.note_fault(*fate);
                }
                if let (Actor::Peer(p), Ev::Send { src, .. }) = (actor, ev) {
                    if self.active_peer.get(src) != Some(p) {
                        self.active_peer.insert(*src, *p);
                        // a new transfer from this address: earlier state about it is history
                        self.error_at_server.remove(src);
                        self.final_ack_faulted.remove(src);
                    }
                }
                match actor {
                    Actor::Task(_) => {}
                    Actor::Peer(p) => {
                        // track whether the reader's final ACK may have been lost
                        if *fate != Fate::Deliver {
                            if let Some(s) = self.specs.iter().find(|s| s.peer == *p).cloned() {
                                if s.kind == Kind::Download {
                                    if let Some(Pkt::Ack(n)) = rfc::decode(data) {
                                        for t in self.tr.values() {
                                            if t.x == s.client && self.specs[t.spec].peer == s.peer {
                                                let nf = (s.content.len() / t.neg.b.max(1)) as u64 + 1;
                                                if n == nf as u16 && t.highest_sent >= nf && nf.saturating_sub(t.acked) < 65536 {
                                                    self.final_ack_faulted.insert(s.client, true);
                                                }
                                            }
                                        }
                                    }
                                }
                            }
                        }
                    }
                    _ => {}
                }
            }
            Ev::Deliver { src, data, to_peer: None, .. } => {
                if self.rules.c07 && self.spec_of(*src).is_some() {
                    if let Some(Pkt::Error { code, .. }) = rfc::decode(data) {
                        if code <= 7 {
                            self.error_at_server.insert(*src, true);
                        }
                    }
                }
            }
            Ev::SendErr { actor: Actor::Task(t), .. } => {
                if let Some(tr) = self.tr.get_mut(t) {
                    tr.send_failed = true;
                }
            }
            // a failing disk excuses any failure of the transfer (never a wrong acknowledgement)
            Ev::DiskWrite { fault: Some(_), task, .. } => {
                self.fault_weight += 100;
                if let Actor::Task(t) = task {
                    if let Some(tr) = self.tr.get_mut(t) {
                        tr.disk_failed = true;
                    }
                }
            }
            Ev::Stall { .. } => self.fault_weight += 4 + self.specs.iter().map(|s| s.timeout_ratio).max().unwrap_or(1).max(1),
            Ev::RecvRet { res: crate::world::RecvRes::Err(std::io::ErrorKind::Interrupted), .. } => self.fault_weight += 1,
            Ev::End { task, panic } => return self.on_end(w, *task, panic),
            Ev::Fs { task: Actor::Task(t), op, .. } if *op == "remove" || *op == "keep" => {
                if let Some(tr) = self.tr.get_mut(t) {
                    tr.fs_cleanup_seen = true;
                    tr.last_action_was_final = false;
                }
            }
            _ => {}
        }
        None
    }

    fn at_end(&mut self, w: &Inner, end: EndReason) -> Option<Violation> {
        // (e) a worker that never ends
        if self.rules.c07 || self.rules.c04 {
            for (task, t) in &self.tr {
                if !t.ended && w.task_alive(*task) {
                    let why = match end {
                        EndReason::Quiescent => "is still blocked although no event is pending (waits forever)",
                        EndReason::StepCap => "is still running at the step cap",
                        EndReason::TimeCap => "is still running at the virtual-time cap",
                        EndReason::Violation => continue,
                    };
                    return Some(self.v("never_ends", format!("task{task} serving {} {why}", t.x)));
                }
            }
        }
        for s in self.specs.clone() {
            match s.kind {
                Kind::Download => {
                    let rd = match w.peer::<Reader>(s.peer) {
                        Some(r) => r,
                        None => continue,
                    };
                    if self.rules.c01 && rd.keep_bytes {
                        let ok = if rd.status == Status::Done { rd.buf == *s.content } else { s.content.starts_with(&rd.buf) };
                        if !ok {
                            return Some(self.v(
                                "reassembly_corrupt",
                                format!("the model reader ({:?}) reassembled {} bytes that differ from the file at byte {}", rd.status, rd.buf.len(), first_diff(&rd.buf, &s.content)),
                            ));
                        }
                    }
                    if self.rules.c04 && s.conformant {
                        let complete = rd.status == Status::Done && (if rd.keep_bytes { rd.buf == *s.content } else { rd.total == s.content.len() as u64 });
                        if !complete {
                            if self.fault_weight <= 5 {
                                return Some(self.v(
                                    "reader_incomplete_below_budget",
                                    format!("the conformant reader ended {:?} with {} of {} bytes although the injected faults account for at most {} failed receive attempts", rd.status, rd.total, s.content.len(), self.fault_weight),
                                ));
                            } else {
                                self.inconclusive = true;
                            }
                        }
                    }
                }
                Kind::Upload => {
                    if self.rules.c04 && s.conformant {
                        let wr = match w.peer::<Writer>(s.peer) {
                            Some(r) => r,
                            None => continue,
                        };
                        let stored = std::fs::read(&s.path).ok();
                        let file_ok = stored.as_deref() == Some(s.content.as_slice());
                        let server_done = self.tr.values().any(|t| t.x == s.client && t.ended && t.final_ack_copies > 0 && !t.fs_cleanup_seen);
                        if !(file_ok && server_done) {
                            if self.fault_weight <= 5 {
                                return Some(self.v(
                                    "upload_incomplete_below_budget",
                                    format!(
                                        "upload from {} did not complete on the server (file complete: {file_ok}, worker completed: {server_done}, writer {:?}) although the injected faults account for at most {} failed receive attempts",
                                        s.client, wr.status, self.fault_weight
                                    ),
                                ));
                            } else {
                                self.inconclusive = true;
                            }
                        }
                    }
                }
            }
        }
        None
    }

    fn probes(&self, out: &mut BTreeMap<&'static str, u64>) {
        for (k, v) in &self.probes {
            *out.entry(k).or_insert(0) += v;
        }
    }

    fn inconclusive(&self) -> bool {
        self.inconclusive
    }

    fn as_any(&self) -> &dyn Any {
        self
    }
}
