//! Monitors for server-level request histories: access policy (C06), confinement (C03),
//! option negotiation (C09), listener availability (C05).
use crate::common::{snapshot, Attr};
use crate::peers::{Reader, Status, Writer};
use crate::rfc::{self, Pkt};
use crate::world::{Actor, EndReason, Ev, Inner, Monitor, RecvRes, Stamp, Violation};
use std::any::Any;
use std::collections::BTreeMap;
use std::net::SocketAddr;
use std::path::PathBuf;
use std::sync::Arc;

type Snap = BTreeMap<String, Option<Vec<u8>>>;

fn diff_snap(a: &Snap, b: &Snap) -> Vec<String> {
    let mut out = vec![];
    for (k, v) in a {
        match b.get(k) {
            None => out.push(format!("removed {k}")),
            Some(v2) if v2 != v => out.push(format!("changed {k}")),
            _ => {}
        }
    }
    for k in b.keys() {
        if !a.contains_key(k) {
            out.push(format!("created {k}"));
        }
    }
    out
}

/// Lexical resolution of a request name, independent of the server's code: `None` when the
/// name escapes the root, otherwise the normalised relative path ("" = the root itself).
pub fn resolve(name: &str) -> Option<String> {
    let n = name.replace('\\', "/");
    let n = n.trim_start_matches('/');
    let mut stack: Vec<&str> = vec![];
    for seg in n.split('/') {
        match seg {
            "" | "." => {}
            ".." => {
                if stack.pop().is_none() {
                    return None;
                }
            }
            s => stack.push(s),
        }
    }
    Some(stack.join("/"))
}

#[derive(Clone, Debug)]
pub struct ReqInfo {
    pub client: SocketAddr,
    pub peer: usize,
    pub write: bool,
    pub name: String,
    /// what the client uploads (for writes)
    pub content: Arc<Vec<u8>>,
    /// this endpoint abandoned a download a moment ago: that worker's DATA retransmissions still
    /// arrive and are not replies to this request
    pub tolerate_stale_data: bool,
}

#[derive(Clone, Debug, PartialEq)]
enum Expect {
    Refuse(u16),
    Accept,
    /// the name escapes: any ERROR
    RefuseAny,
    /// stays inside lexically: served or refused, but confined
    Confined,
}

struct Pending {
    req: usize,
    expect: Expect,
    pre: Snap,
    pre_target: Option<Vec<u8>>,
    target: Option<PathBuf>,
    to_client: Vec<(SocketAddr, Arc<[u8]>)>,
    tasks: u32,
}

#[derive(Clone, Copy, PartialEq, Eq)]
pub enum Mode {
    Policy,
    Confine,
}

pub struct ReqMon {
    prop: &'static str,
    mode: Mode,
    attr: Attr,
    pub reqs: Vec<ReqInfo>,
    root: PathBuf,
    send_dir: PathBuf,
    recv_dir: PathBuf,
    listen: SocketAddr,
    read_only: bool,
    overwrite: bool,
    pending: Option<Pending>,
    /// relative paths (to root) that uploads may legitimately have created/changed so far
    allowed_targets: Vec<String>,
    active_peer: BTreeMap<SocketAddr, usize>,
    pub probes: BTreeMap<&'static str, u64>,
}

impl ReqMon {
    #[allow(clippy::too_many_arguments)]
    pub fn new(prop: &'static str, mode: Mode, reqs: Vec<ReqInfo>, root: PathBuf, send_dir: PathBuf, recv_dir: PathBuf, listen: SocketAddr, read_only: bool, overwrite: bool) -> ReqMon {
        ReqMon { prop, mode, attr: Attr::default(), reqs, root, send_dir, recv_dir, listen, read_only, overwrite, pending: None, allowed_targets: vec![], active_peer: BTreeMap::new(), probes: BTreeMap::new() }
    }

    fn probe(&mut self, k: &'static str) {
        *self.probes.entry(k).or_insert(0) += 1;
    }

    fn v(&self, rule: &str, detail: String) -> Violation {
        Violation::new(self.prop, &format!("{}.{}", self.prop, rule), detail)
    }

    fn rel(&self, p: &PathBuf) -> String {
        p.strip_prefix(&self.root).map(|x| x.to_string_lossy().into_owned()).unwrap_or_default()
    }

    fn begin(&mut self, idx: usize) {
        let r = self.reqs[idx].clone();
        let base = if r.write { self.recv_dir.clone() } else { self.send_dir.clone() };
        let resolved = resolve(&r.name);
        let target = resolved.as_ref().map(|rel| if rel.is_empty() { base.clone() } else { base.join(rel) });
        let exists = target.as_ref().map_or(false, |t| t.exists());
        let expect = match self.mode {
            Mode::Policy => {
                if r.write && self.read_only {
                    Expect::Refuse(2)
                } else if r.write && !self.overwrite && exists {
                    // "an existing file" is refused with ERROR 6; for an existing directory the statement
                    // names no code, so any refusal from the listening port will do
                    if target.as_ref().map_or(false, |t| t.is_dir()) {
                        Expect::RefuseAny
                    } else {
                        Expect::Refuse(6)
                    }
                } else if !r.write && !exists {
                    Expect::Refuse(1)
                } else {
                    Expect::Accept
                }
            }
            Mode::Confine => {
                if resolved.is_none() {
                    Expect::RefuseAny
                } else {
                    Expect::Confined
                }
            }
        };
        match &expect {
            Expect::Refuse(1) => self.probe("refusal_not_found"),
            Expect::Refuse(2) => self.probe("refusal_read_only"),
            Expect::Refuse(6) => self.probe("refusal_exists"),
            Expect::Accept => self.probe(if r.write { "accepted_write" } else { "accepted_read" }),
            Expect::RefuseAny => self.probe("escaping_name"),
            Expect::Confined => self.probe("inside_name"),
            _ => {}
        }
        let pre_target = target.as_ref().and_then(|t| std::fs::read(t).ok());
        self.pending = Some(Pending { req: idx, expect, pre: snapshot(&self.root), pre_target, target, to_client: vec![], tasks: 0 });
    }

    /// Judges the request that has fully played out.
    fn conclude(&mut self, w: &Inner) -> Option<Violation> {
        let p = self.pending.take()?;
        let r = self.reqs[p.req].clone();
        let now = snapshot(&self.root);
        let what = format!("{} {:?}", if r.write { "WRQ" } else { "RRQ" }, r.name);
        let first = p.to_client.first().and_then(|(src, d)| rfc::decode(d).map(|k| (*src, k)));
        let refusal_checks = |this: &ReqMon, code: Option<u16>| -> Option<Violation> {
            match &first {
                Some((src, Pkt::Error { code: c, .. })) => {
                    if let Some(want) = code {
                        if *c != want {
                            return Some(this.v("wrong_refusal", format!("{what}: refused with ERROR {c}, expected ERROR {want}")));
                        }
                    }
                    if *src != this.listen {
                        return Some(this.v("refusal_not_from_listening_port", format!("{what}: ERROR came from {src}, the listening address is {}", this.listen)));
                    }
                }
                Some((_, other)) => {
                    return Some(this.v("not_refused", format!("{what}: must be refused{} but the first reply is {}", code.map(|c| format!(" with ERROR {c}")).unwrap_or_default(), rfc::summary(&rfc::encode(other)))));
                }
                None => {
                    return Some(this.v("not_refused", format!("{what}: must be refused with an ERROR but no reply was sent")));
                }
            }
            if p.to_client.len() > 1 {
                return Some(this.v("datagram_after_refusal", format!("{what}: {} datagrams reached the client after the refusal", p.to_client.len() - 1)));
            }
            if p.tasks > 0 {
                return Some(this.v("transfer_started_on_refusal", format!("{what}: refused, yet {} transfer task(s) were started", p.tasks)));
            }
            let d = diff_snap(&p.pre, &now);
            if !d.is_empty() {
                return Some(this.v("refusal_changed_disk", format!("{what}: refused, yet the sandbox changed: {}", d.join(", "))));
            }
            None
        };
        match &p.expect {
            Expect::Refuse(code) => {
                if let Some(v) = refusal_checks(self, Some(*code)) {
                    return Some(v);
                }
            }
            Expect::RefuseAny => {
                if let Some(v) = refusal_checks(self, None) {
                    return Some(v);
                }
            }
            Expect::Accept => {
                if r.write {
                    if let Some(wr) = w.peer::<Writer>(r.peer) {
                        if wr.status == Status::Done {
                            self.probe("completed_upload");
                            let t = p.target.clone().unwrap();
                            let got = std::fs::read(&t).ok();
                            if got.as_deref() != Some(r.content.as_slice()) {
                                return Some(self.v(
                                    "upload_not_replacing",
                                    format!(
                                        "{what}: the upload completed ({} bytes, previous content {} bytes) but the stored file holds {:?} bytes",
                                        r.content.len(),
                                        p.pre_target.as_ref().map(|x| x.len() as i64).unwrap_or(-1),
                                        got.as_ref().map(|x| x.len())
                                    ),
                                ));
                            }
                            let rel = self.rel(&t);
                            self.allowed_targets.push(rel);
                        } else if let Some((_, Pkt::Error { code, .. })) = &first {
                            return Some(self.v("wrongly_refused", format!("{what}: refused with ERROR {code} although the policy allows it")));
                        }
                    }
                } else if let Some(rd) = w.peer::<Reader>(r.peer) {
                    if rd.status == Status::Done {
                        self.probe("completed_download");
                        if Some(&rd.buf) != p.pre_target.as_ref() {
                            return Some(self.v("download_wrong_content", format!("{what}: the client received {} bytes that are not the file's content", rd.buf.len())));
                        }
                    } else if let Some((_, Pkt::Error { code, .. })) = &first {
                        return Some(self.v("wrongly_refused", format!("{what}: refused with ERROR {code} although the file exists")));
                    }
                }
                // an accepted request must leave everything but its own target alone
                let tr = p.target.as_ref().map(|t| self.rel(t)).unwrap_or_default();
                let d: Vec<String> = diff_snap(&p.pre, &now).into_iter().filter(|x| !(r.write && x.ends_with(&format!(" {tr}")))).collect();
                if !d.is_empty() {
                    return Some(self.v("other_files_changed", format!("{what}: files other than the target changed: {}", d.join(", "))));
                }
            }
            Expect::Confined => {
                // whatever happened, only the lexically resolved target inside the receive dir may differ
                let tr = p.target.as_ref().map(|t| self.rel(t)).unwrap_or_default();
                let d: Vec<String> = diff_snap(&p.pre, &now).into_iter().filter(|x| !(r.write && !tr.is_empty() && x.ends_with(&format!(" {tr}")) && p.target.as_ref().unwrap().starts_with(&self.recv_dir))).collect();
                if !d.is_empty() {
                    return Some(self.v("effect_outside_target", format!("{what}: file system effect outside the resolved target {tr:?}: {}", d.join(", "))));
                }
                if !r.write {
                    if let Some(rd) = w.peer::<Reader>(r.peer) {
                        if !rd.buf.is_empty() || rd.status == Status::Done {
                            // bytes were served: they must be the resolved file inside the send directory
                            let ok = match (&p.pre_target, &p.target) {
                                (Some(c), Some(t)) if t.starts_with(&self.send_dir) && t.is_file() => c.starts_with(&rd.buf),
                                _ => rd.buf.is_empty(),
                            };
                            if !ok {
                                return Some(self.v("served_foreign_bytes", format!("{what}: {} bytes were served that are not the content of the resolved file inside the send directory", rd.buf.len())));
                            }
                            if rd.status == Status::Done {
                                self.probe("served_inside_file");
                            }
                        }
                    }
                }
            }
        }
        None
    }
}

impl Monitor for ReqMon {
    fn on_event(&mut self, w: &Inner, _st: &Stamp, ev: &Ev) -> Option<Violation> {
        self.attr.feed(ev);
        match ev {
            // a request is judged from the moment it reaches the listening socket (what the listener makes
            // of it, e.g. after truncation by a too small receive buffer, is the server's business)
            Ev::Deliver { dst, src: from, data, to_peer: None, .. } if *dst == self.listen => {
                let ap = self.active_peer.get(from).copied();
                if let Some(idx) = self.reqs.iter().position(|r| r.client == *from && ap.map_or(true, |p| p == r.peer)) {
                    if matches!(rfc::decode(data), Some(Pkt::Rrq { .. }) | Some(Pkt::Wrq { .. })) {
                        let v = self.conclude(w);
                        self.begin(idx);
                        return v;
                    }
                }
            }
            Ev::Send { actor: Actor::Peer(p), src, .. } => {
                self.active_peer.insert(*src, *p);
            }
            Ev::Deliver { dst, src, data, to_peer: Some(_), .. } => {
                if let Some(p) = &mut self.pending {
                    if self.reqs[p.req].client == *dst && !(self.reqs[p.req].tolerate_stale_data && rfc::is_data(data)) {
                        p.to_client.push((*src, data.clone()));
                    }
                }
            }
            Ev::Spawn { task, parent: Actor::Task(pt) } if Some(*pt) == self.attr.listener => {
                if let Some(p) = &mut self.pending {
                    if self.attr.client_of(*task) == Some(self.reqs[p.req].client) {
                        p.tasks += 1;
                    }
                }
            }
            Ev::End { task, panic: Some(msg) } if Some(*task) == self.attr.listener => {
                return Some(self.v("listener_died", format!("the listener panicked: {msg}")));
            }
            _ => {}
        }
        None
    }

    fn at_end(&mut self, w: &Inner, _end: EndReason) -> Option<Violation> {
        self.conclude(w)
    }

    fn probes(&self, out: &mut BTreeMap<&'static str, u64>) {
        for (k, v) in &self.probes {
            *out.entry(k).or_insert(0) += v;
        }
    }

    fn as_any(&self) -> &dyn Any {
        self
    }
}

// ------------------------------------------------------------------------------------------
// C09: the first reply against an independent expectation
// ------------------------------------------------------------------------------------------

pub struct OptMon {
    pub client: SocketAddr,
    pub write: bool,
    /// options exactly as sent
    pub sent: Vec<(String, String)>,
    pub true_size: u64,
    first: Option<Vec<u8>>,
    pub probes: BTreeMap<&'static str, u64>,
}

pub fn numeric(v: &str) -> Option<u128> {
    let t = v.strip_prefix('+').unwrap_or(v);
    if t.is_empty() || !t.bytes().all(|b| b.is_ascii_digit()) {
        return None;
    }
    t.parse::<u128>().ok()
}

pub fn honourable(name: &str, v: u128) -> bool {
    match name {
        "blksize" => (8..=65464).contains(&v),
        "timeout" => v >= 1,
        "windowsize" => (1..=65535).contains(&v),
        _ => true,
    }
}

const KNOWN: [&str; 4] = ["blksize", "timeout", "tsize", "windowsize"];

impl OptMon {
    pub fn new(client: SocketAddr, write: bool, sent: Vec<(String, String)>, true_size: u64) -> OptMon {
        OptMon { client, write, sent, true_size, first: None, probes: BTreeMap::new() }
    }

    fn v(&self, rule: &str, detail: String) -> Violation {
        Violation::new("C09", &format!("C09.{rule}"), detail).sig("request", if self.write { "WRQ" } else { "RRQ" })
    }

    fn recognised(&self) -> Vec<(String, String)> {
        self.sent.iter().filter(|(k, _)| KNOWN.contains(&k.to_ascii_lowercase().as_str())).map(|(k, v)| (k.to_ascii_lowercase(), v.clone())).collect()
    }

    fn judge_first(&mut self, data: &[u8]) -> Option<Violation> {
        let rec = self.recognised();
        let plain = rec.iter().all(|(k, v)| numeric(v).map_or(false, |n| honourable(k, n) && !v.starts_with('+') && n <= u64::MAX as u128));
        let pkt = rfc::decode(data);
        if rec.is_empty() {
            *self.probes.entry("no_recognised_option").or_insert(0) += 1;
            return match (&pkt, self.write) {
                (Some(Pkt::Data { n: 1, payload }), false) if payload.len() <= 512 => None,
                (Some(Pkt::Ack(0)), true) => None,
                _ => Some(self.v("wrong_default_reply", format!("no recognised option was sent; first reply is {} (expected {})", rfc::summary(data), if self.write { "ACK(0)" } else { "DATA(1) of at most 512 bytes" }))),
            };
        }
        match &pkt {
            Some(Pkt::Oack(o)) => {
                *self.probes.entry("oack").or_insert(0) += 1;
                let mut seen: Vec<String> = vec![];
                for (k, v) in o {
                    let kl = k.to_ascii_lowercase();
                    // a request may (against RFC 2347) carry an option more than once: then the OACK may as well,
                    // and each of its values is held against the requested ones
                    let asked_all: Vec<&(String, String)> = rec.iter().filter(|(n, _)| *n == kl).collect();
                    let asked = match asked_all.first() {
                        Some(a) => *a,
                        None => return Some(self.v("oack_unrequested_option", format!("OACK lists {k}={v}, which the request did not carry (sent: {:?})", self.sent))),
                    };
                    seen.push(kl.clone());
                    if seen.iter().filter(|s| **s == kl).count() > asked_all.len() {
                        return Some(self.v("oack_repeats_option", format!("OACK lists {k} {} times, the request {} times", seen.iter().filter(|s| **s == kl).count(), asked_all.len())));
                    }
                    let val = match numeric(v) {
                        Some(x) if !v.starts_with('+') => x,
                        _ => return Some(self.v("oack_bad_value", format!("OACK value {k}={v} is not a decimal number"))),
                    };
                    if !honourable(&kl, val) {
                        return Some(self.v("unhonourable_value_acknowledged", format!("OACK acknowledges {k}={v}, which the server cannot honour (requested {:?})", asked.1)));
                    }
                    let asked_ns: Vec<u128> = asked_all.iter().filter_map(|a| numeric(&a.1)).collect();
                    match kl.as_str() {
                        "tsize" => {
                            let ok = if self.write { asked_ns.contains(&val) } else { val == self.true_size as u128 };
                            if !ok {
                                return Some(self.v("oack_wrong_tsize", format!("OACK tsize={v}; expected {} ({})", if self.write { format!("{asked_ns:?}") } else { self.true_size.to_string() }, if self.write { "echo of the client's value" } else { "true file size" })));
                            }
                        }
                        _ => match asked_ns.iter().max() {
                            Some(a) if val <= *a => {}
                            _ => return Some(self.v("oack_exceeds_request", format!("OACK {k}={v} exceeds the requested {:?}", asked_ns))),
                        },
                    }
                }
                None
            }
            Some(Pkt::Error { .. }) => {
                *self.probes.entry("error_reply").or_insert(0) += 1;
                if plain {
                    Some(self.v("honourable_request_refused", format!("every recognised option is honourable ({:?}) but the reply is {}", self.sent, rfc::summary(data))))
                } else {
                    None
                }
            }
            _ => {
                if plain {
                    Some(self.v("missing_oack", format!("the request carries recognised options {:?} but the first reply is {}", rec, rfc::summary(data))))
                } else {
                    // an unhonourable request answered as if it had no options: tolerated only if nothing was acknowledged (true here)
                    None
                }
            }
        }
    }
}

impl Monitor for OptMon {
    fn on_event(&mut self, _w: &Inner, _st: &Stamp, ev: &Ev) -> Option<Violation> {
        if let Ev::Deliver { dst, data, to_peer: Some(_), .. } = ev {
            if *dst == self.client && self.first.is_none() {
                self.first = Some(data.to_vec());
                return self.judge_first(data);
            }
            // an OACK that is sent again says what the first one said
            if *dst == self.client && matches!(rfc::decode(data), Some(Pkt::Oack(_))) {
                if let Some(f) = &self.first {
                    if matches!(rfc::decode(f), Some(Pkt::Oack(_))) && f.as_slice() != &data[..] {
                        return Some(self.v("oack_changed_on_repeat", format!("the OACK was sent again with different content: first {}, now {}", rfc::summary(f), rfc::summary(data))));
                    }
                }
            }
        }
        None
    }

    fn at_end(&mut self, _w: &Inner, _end: EndReason) -> Option<Violation> {
        if self.first.is_none() {
            let rec = self.recognised();
            let plain = rec.iter().all(|(k, v)| numeric(v).map_or(false, |n| honourable(k, n) && !v.starts_with('+') && n <= u64::MAX as u128));
            if plain {
                return Some(self.v("no_reply", format!("a well-formed request with honourable options {:?} got no reply at all", self.sent)));
            }
            *self.probes.entry("silence_on_unhonourable").or_insert(0) += 1;
        }
        None
    }

    fn probes(&self, out: &mut BTreeMap<&'static str, u64>) {
        for (k, v) in &self.probes {
            *out.entry(k).or_insert(0) += v;
        }
    }

    fn as_any(&self) -> &dyn Any {
        self
    }
}

// ------------------------------------------------------------------------------------------
// C05: listener liveness
// ------------------------------------------------------------------------------------------

pub struct LiveMon {
    attr: Attr,
    /// (peer index, expected content) of the probes
    pub probes_spec: Vec<(usize, Arc<Vec<u8>>)>,
    /// a legitimate upload that runs while the hostile datagrams arrive: (stored path, content)
    pub upload_victim: Option<(PathBuf, Arc<Vec<u8>>)>,
    pub probes: BTreeMap<&'static str, u64>,
    /// tasks parked in open(2) of a named pipe (nothing the server could do about those)
    fifo_blocked: Vec<tftpd::verif::TaskId>,
}

impl LiveMon {
    pub fn new(probes_spec: Vec<(usize, Arc<Vec<u8>>)>) -> LiveMon {
        LiveMon { attr: Attr::default(), probes_spec, upload_victim: None, probes: BTreeMap::new(), fifo_blocked: vec![] }
    }
}

impl Monitor for LiveMon {
    fn on_event(&mut self, _w: &Inner, _st: &Stamp, ev: &Ev) -> Option<Violation> {
        self.attr.feed(ev);
        match ev {
            Ev::End { task, panic } if Some(*task) == self.attr.listener => {
                let how = match panic {
                    Some(p) => format!("panicked: {p}"),
                    None => "returned".to_string(),
                };
                return Some(Violation::new("C05", "C05.listener_died", format!("the listening task {how}")).sig("how", if panic.is_some() { "panic" } else { "return" }));
            }
            Ev::End { panic: Some(_), .. } => {
                *self.probes.entry("worker_panic_observed").or_insert(0) += 1;
            }
            Ev::Fs { op, task: Actor::Task(t), .. } if *op == "open-blocks-on-fifo" => self.fifo_blocked.push(*t),
            Ev::Fs { op, path, .. } if *op == "server-new-failed" => {
                return Some(Violation::new("C05", "C05.harness_server_boot_failed", format!("Server::new failed: {}", path.display())));
            }
            _ => {}
        }
        None
    }

    fn at_end(&mut self, w: &Inner, end: EndReason) -> Option<Violation> {
        if end == EndReason::StepCap {
            return Some(Violation::new("C05", "C05.spinning", "the run hit the step cap: some task spins without blocking".to_string()));
        }
        if let Some((path, content)) = &self.upload_victim {
            // hostile datagrams from other endpoints must not damage a transfer in flight. A hostile WRQ
            // may legitimately have claimed the same name first only if it used the same name: it does not.
            match std::fs::read(path) {
                Ok(f) if f == **content => {
                    *self.probes.entry("concurrent_upload_intact").or_insert(0) += 1;
                }
                other => {
                    return Some(
                        Violation::new("C05", "C05.concurrent_upload_damaged", format!("a legitimate upload that ran while hostile datagrams arrived was stored as {:?} bytes instead of {}", other.ok().map(|f| f.len()), content.len()))
                            .sig("probe", "upload"),
                    );
                }
            }
        }
        if end == EndReason::Quiescent {
            // nothing is left to happen: a transfer thread that is still there waits for ever and with it
            // a socket, a file and (single port) a routing entry. "Any number of sources" then exhausts them.
            for t in &self.attr.spawn_order {
                if w.task_alive(*t) && !self.fifo_blocked.contains(t) {
                    return Some(Violation::new("C05", "C05.transfer_thread_never_ends", format!("task{t}, started for {:?}, is still blocked although no event is pending: it will wait for ever (one thread, socket and file leaked per such request)", self.attr.client_of(*t))));
                }
            }
        }
        for (p, content) in &self.probes_spec {
            if let Some(rd) = w.peer::<Reader>(*p) {
                if rd.status == Status::Idle {
                    continue;
                }
                if !(rd.status == Status::Done && rd.buf == **content) {
                    return Some(
                        Violation::new(
                            "C05",
                            "C05.probe_not_served",
                            format!("a canonical read request issued after the hostile datagrams was not served correctly: probe ended {:?} with {} of {} bytes after {} request(s)", rd.status, rd.buf.len(), content.len(), rd.requests_sent),
                        )
                        .sig("probe", "failed"),
                    );
                }
                *self.probes.entry("probe_served").or_insert(0) += 1;
            }
        }
        None
    }

    fn probes(&self, out: &mut BTreeMap<&'static str, u64>) {
        for (k, v) in &self.probes {
            *out.entry(k).or_insert(0) += v;
        }
    }

    fn as_any(&self) -> &dyn Any {
        self
    }
}
