//! Shared scenario plumbing: sandbox, file contents, server boot, event attribution.
use crate::world::{Actor, Ev, RecvRes, World};
use std::collections::{BTreeMap, VecDeque};
use std::net::SocketAddr;
use std::path::{Path, PathBuf};
use std::sync::atomic::{AtomicU64, Ordering};
use std::sync::Arc;
use tftpd::verif::{ChanId, TaskId};

static SANDBOX_SEQ: AtomicU64 = AtomicU64::new(0);

pub struct Sandbox {
    pub root: PathBuf,
}

impl Sandbox {
    pub fn new() -> Sandbox {
        let base = if Path::new("/dev/shm").is_dir() { PathBuf::from("/dev/shm") } else { std::env::temp_dir() };
        let n = SANDBOX_SEQ.fetch_add(1, Ordering::Relaxed);
        // the path is the same for every run of a process so traces do not depend on it
        let root = base.join(format!("tftpd-sim-{:07}", std::process::id())).join("sb");
        let _ = std::fs::remove_dir_all(&root);
        std::fs::create_dir_all(&root).expect("sandbox");
        let _ = n;
        Sandbox { root }
    }
    pub fn dir(&self, rel: &str) -> PathBuf {
        let p = self.root.join(rel);
        std::fs::create_dir_all(&p).expect("mkdir");
        p
    }
    pub fn write(&self, rel: &str, data: &[u8]) -> PathBuf {
        let p = self.root.join(rel);
        if let Some(d) = p.parent() {
            std::fs::create_dir_all(d).expect("mkdir");
        }
        std::fs::write(&p, data).expect("write");
        p
    }
}

impl Drop for Sandbox {
    fn drop(&mut self) {
        // a scenario may have changed the working directory (relative served directories)
        let _ = std::env::set_current_dir(process_base());
        let _ = std::fs::remove_dir_all(&self.root);
    }
}

pub fn process_base() -> PathBuf {
    let base = if Path::new("/dev/shm").is_dir() { PathBuf::from("/dev/shm") } else { std::env::temp_dir() };
    base.join(format!("tftpd-sim-{:07}", std::process::id()))
}

/// The working directory of a simulating process: relative paths used by the bundled client
/// resolve inside the process's own scratch area.
pub fn enter_process_base() {
    let b = process_base();
    std::fs::create_dir_all(&b).expect("process base");
    std::env::set_current_dir(&b).expect("chdir");
}

pub fn remove_sandbox_of(pid: u32) {
    let base = if Path::new("/dev/shm").is_dir() { PathBuf::from("/dev/shm") } else { std::env::temp_dir() };
    let _ = std::fs::remove_dir_all(base.join(format!("tftpd-sim-{:07}", pid)));
}

pub fn cleanup_process_sandbox() {
    let _ = std::env::set_current_dir("/");
    let base = if Path::new("/dev/shm").is_dir() { PathBuf::from("/dev/shm") } else { std::env::temp_dir() };
    let _ = std::fs::remove_dir_all(base.join(format!("tftpd-sim-{:07}", std::process::id())));
}

/// Position-coded content: every aligned 8-byte record is unique, so any misplaced,
/// repeated or missing block is attributable.
pub fn content(len: usize, salt: u64) -> Vec<u8> {
    let mut v = Vec::with_capacity(len + 8);
    let mut k: u64 = 0;
    while v.len() < len {
        let rec = (k ^ salt.wrapping_mul(0x9E3779B97F4A7C15)).wrapping_mul(0xD6E8FEB86659FD93) ^ (salt << 56);
        v.extend_from_slice(&rec.to_le_bytes());
        k += 1;
    }
    v.truncate(len);
    v
}

/// Content whose tail (and a stretch in the middle) is all zero bytes: images padded with zeros are
/// common, and "sparse" handling of zero blocks must not lose them.
pub fn content_with_zero_runs(len: usize, salt: u64, block: usize) -> Vec<u8> {
    let mut v = content(len, salt);
    let b = block.max(1);
    if len >= 2 * b {
        let tail = (len / b / 2).max(1) * b;
        let start = len - tail.min(len);
        for x in &mut v[start..] {
            *x = 0;
        }
    }
    if len >= 6 * b {
        for x in &mut v[b..2 * b] {
            *x = 0;
        }
    }
    v
}

/// Text-like content: CR LF, CR NUL and lone CR / LF sprinkled through it and placed across the block
/// boundaries, the byte pairs a netascii translation would touch. The server transfers octets.
pub fn content_texty(len: usize, salt: u64, block: usize) -> Vec<u8> {
    let mut v = content(len, salt);
    let b = block.max(2);
    let mut i = 5;
    let mut k = 0usize;
    while i + 1 < len {
        let pair: [u8; 2] = [[b'\r', b'\n'], [b'\r', 0], [b'\n', b'\r'], [b'\r', b'\r']][k % 4];
        v[i] = pair[0];
        v[i + 1] = pair[1];
        k += 1;
        i += 29 + (k % 7);
    }
    let mut e = b;
    while e < len {
        v[e - 1] = b'\r';
        v[e] = if (e / b) % 2 == 0 { b'\n' } else { 0 };
        e += b;
    }
    if len > 0 {
        v[len - 1] = b'\r';
    }
    v
}

/// A transfer mode string: mostly "octet", sometimes another spelling or another mode name.
pub fn draw_mode(r: u32) -> &'static str {
    ["octet", "octet", "octet", "octet", "octet", "octet", "OCTET", "Octet", "netascii", "NetASCII", "netascii", "mail"][(r % 12) as usize]
}

/// Recursive snapshot (relative path -> content; directories map to None).
pub fn snapshot(root: &Path) -> BTreeMap<String, Option<Vec<u8>>> {
    fn walk(root: &Path, dir: &Path, out: &mut BTreeMap<String, Option<Vec<u8>>>) {
        if let Ok(rd) = std::fs::read_dir(dir) {
            for e in rd.flatten() {
                let p = e.path();
                let rel = p.strip_prefix(root).unwrap().to_string_lossy().into_owned();
                match e.file_type() {
                    Ok(t) if t.is_dir() => {
                        out.insert(rel, None);
                        walk(root, &p, out);
                    }
                    Ok(t) if !t.is_file() && !t.is_symlink() => {
                        // FIFOs and the like are never read (that would block the harness)
                        out.insert(rel, Some(b"<special file>".to_vec()));
                    }
                    _ => {
                        out.insert(rel, Some(if crate::world::is_fifo(&p) { b"<special file>".to_vec() } else { std::fs::read(&p).unwrap_or_default() }));
                    }
                }
            }
        }
    }
    let mut out = BTreeMap::new();
    walk(root, root, &mut out);
    out
}

#[derive(Clone, Debug)]
pub struct ServerCfg {
    pub v6: bool,
    pub port: u16,
    pub dir: PathBuf,
    pub send_dir: Option<PathBuf>,
    pub recv_dir: Option<PathBuf>,
    pub single_port: bool,
    pub read_only: bool,
    pub overwrite: bool,
    pub keep_on_error: bool,
    pub dup: Option<String>,
    /// rotation of the flag groups on the command line (the order of flags must not matter)
    pub arg_rot: usize,
}

impl ServerCfg {
    pub fn new(dir: &Path) -> ServerCfg {
        ServerCfg {
            v6: false,
            port: 69,
            dir: dir.to_path_buf(),
            send_dir: None,
            recv_dir: None,
            single_port: false,
            read_only: false,
            overwrite: false,
            keep_on_error: false,
            dup: None,
            arg_rot: 0,
        }
    }
    pub fn args(&self) -> Vec<String> {
        let mut groups: Vec<Vec<String>> = vec![];
        groups.push(vec!["-i".into(), if self.v6 { "::1".into() } else { "127.0.0.1".into() }]);
        groups.push(vec!["-p".into(), self.port.to_string()]);
        groups.push(vec!["-d".into(), self.dir.to_string_lossy().into_owned()]);
        if let Some(d) = &self.send_dir {
            groups.push(vec!["-sd".into(), d.to_string_lossy().into_owned()]);
        }
        if let Some(d) = &self.recv_dir {
            groups.push(vec!["-rd".into(), d.to_string_lossy().into_owned()]);
        }
        if self.single_port {
            groups.push(vec!["-s".into()]);
        }
        if self.read_only {
            groups.push(vec!["-r".into()]);
        }
        if self.overwrite {
            groups.push(vec!["--overwrite".into()]);
        }
        if self.keep_on_error {
            groups.push(vec!["--keep-on-error".into()]);
        }
        if let Some(n) = &self.dup {
            groups.push(vec!["--duplicate-packets".into(), n.clone()]);
        }
        let k = self.arg_rot % groups.len();
        groups.rotate_left(k);
        let mut a: Vec<String> = vec!["tftpd".into()];
        for g in groups {
            a.extend(g);
        }
        a
    }
    pub fn addr(&self) -> SocketAddr {
        SocketAddr::new(crate::world::loopback(self.v6), self.port)
    }
    pub fn describe(&self) -> String {
        format!(
            "server[{}{}{}{}{}{}{}]",
            if self.single_port { "single-port" } else { "multi-port" },
            if self.read_only { ",read-only" } else { "" },
            if self.overwrite { ",overwrite" } else { "" },
            if self.keep_on_error { ",keep-on-error" } else { "" },
            if self.v6 { ",ipv6" } else { "" },
            match &self.dup {
                Some(n) => format!(",dup={n}"),
                None => String::new(),
            },
            if self.arg_rot > 0 { format!(",args-rotated-by-{}", self.arg_rot) } else { String::new() }
        )
    }
}

/// Boots the server exactly like `main.rs`: Config::new(args) -> Server::new -> listen(),
/// inside a simulated task. `Err` is the configuration error text.
pub fn boot_server(world: &Arc<World>, cfg: &ServerCfg) -> Result<SocketAddr, String> {
    let config = tftpd::Config::new(cfg.args().into_iter()).map_err(|e| e.to_string())?;
    world.spawn_task(move || {
        match tftpd::Server::new(&config) {
            Ok(mut server) => server.listen(),
            Err(e) => {
                if let Some(b) = tftpd::verif::current() {
                    b.fs_point("server-new-failed", Path::new(&e.to_string()));
                }
            }
        }
    });
    Ok(cfg.addr())
}

/// What a worker task received, whichever way it receives (own socket or routed channel).
#[derive(Clone, Debug)]
pub enum WRecv {
    Call,
    Data(Arc<[u8]>),
    Timeout,
    Err,
}

/// Attribution helper: which task is the listener, which client each worker serves, and a
/// uniform view of worker receives in both port modes.
#[derive(Default)]
pub struct Attr {
    pub listener: Option<TaskId>,
    last_req_from: Option<SocketAddr>,
    pub task_client: BTreeMap<TaskId, SocketAddr>,
    /// single-port: datagrams routed by the listener, per channel, in order
    routed: BTreeMap<ChanId, VecDeque<Arc<[u8]>>>,
    last_listener_dgram: Option<Arc<[u8]>>,
    pub spawn_order: Vec<TaskId>,
}

impl Attr {
    pub fn feed(&mut self, ev: &Ev) -> Option<(TaskId, WRecv)> {
        match ev {
            Ev::Spawn { task, parent } => {
                match parent {
                    Actor::Driver => {
                        if self.listener.is_none() {
                            self.listener = Some(*task);
                        }
                    }
                    Actor::Task(p) if Some(*p) == self.listener => {
                        if let Some(x) = self.last_req_from {
                            self.task_client.insert(*task, x);
                        }
                        self.spawn_order.push(*task);
                    }
                    _ => {}
                }
                None
            }
            Ev::RecvCall { task, .. } => {
                if Some(*task) == self.listener {
                    None
                } else {
                    Some((*task, WRecv::Call))
                }
            }
            Ev::RecvRet { task, res, .. } => {
                if Some(*task) == self.listener {
                    if let RecvRes::Data { from, data, .. } = res {
                        self.last_req_from = Some(*from);
                        self.last_listener_dgram = Some(data.clone());
                    }
                    None
                } else {
                    Some((
                        *task,
                        match res {
                            RecvRes::Data { data, .. } => WRecv::Data(data.clone()),
                            RecvRes::Timeout => WRecv::Timeout,
                            RecvRes::Err(_) => WRecv::Err,
                        },
                    ))
                }
            }
            Ev::ChanNotify { actor: Actor::Task(t), chan, what } if Some(*t) == self.listener && *what == "send" => {
                if let Some(d) = &self.last_listener_dgram {
                    self.routed.entry(*chan).or_default().push_back(d.clone());
                }
                None
            }
            Ev::ChanTrace { actor: Actor::Task(t), chan, what } => match *what {
                "recv-call" => Some((*t, WRecv::Call)),
                "recv-ok" => {
                    let d = self.routed.entry(*chan).or_default().pop_front();
                    Some((*t, d.map(WRecv::Data).unwrap_or(WRecv::Err)))
                }
                "recv-timeout" => Some((*t, WRecv::Timeout)),
                "recv-disconnected" => Some((*t, WRecv::Err)),
                _ => None,
            },
            _ => None,
        }
    }

    pub fn client_of(&self, t: TaskId) -> Option<SocketAddr> {
        self.task_client.get(&t).copied()
    }
    pub fn is_worker(&self, t: TaskId) -> bool {
        self.task_client.contains_key(&t)
    }
}
