//! Monitors for duplicate-packets mode (C16), upload cleanup (C13), isolation (C12) and the
//! bundled client (C14).
use crate::common::{Attr, WRecv};
use crate::peers::{Reader, Scripted, Status, Writer};
use crate::rfc::{self, Pkt};
use crate::world::{Actor, EndReason, Ev, Inner, Monitor, Stamp, Violation};
use std::any::Any;
use std::collections::{BTreeMap, BTreeSet};
use std::net::SocketAddr;
use std::path::PathBuf;
use std::sync::Arc;
use tftpd::verif::TaskId;

fn bump(m: &mut BTreeMap<&'static str, u64>, k: &'static str) {
    *m.entry(k).or_insert(0) += 1;
}

/// A violation decided while the scenario was built (pure start-up checks).
pub struct StaticMon {
    pub v: Option<Violation>,
}

impl Monitor for StaticMon {
    fn on_event(&mut self, _w: &Inner, _st: &Stamp, _ev: &Ev) -> Option<Violation> {
        None
    }
    fn at_end(&mut self, _w: &Inner, _end: EndReason) -> Option<Violation> {
        self.v.take()
    }
    fn as_any(&self) -> &dyn Any {
        self
    }
}

// ------------------------------------------------------------------------------------------
// C16
// ------------------------------------------------------------------------------------------

pub struct DupMon {
    attr: Attr,
    pub n: u64,
    /// tasks whose sends are judged (server workers); others (e.g. the bundled client's worker) are not
    run: BTreeMap<TaskId, (Arc<[u8]>, u64)>,
    listener_last: BTreeMap<SocketAddr, Arc<[u8]>>,
    last_worker_error: BTreeMap<TaskId, Arc<[u8]>>,
    pub probes: BTreeMap<&'static str, u64>,
}

impl DupMon {
    pub fn new(n: u64) -> DupMon {
        DupMon { attr: Attr::default(), n, run: BTreeMap::new(), listener_last: BTreeMap::new(), last_worker_error: BTreeMap::new(), probes: BTreeMap::new() }
    }

    fn close_run(&mut self, task: TaskId) -> Option<Violation> {
        if let Some((data, cnt)) = self.run.remove(&task) {
            if cnt != self.n + 1 {
                return Some(
                    Violation::new(
                        "C16",
                        "C16.wrong_multiplicity",
                        format!("task{task} emitted {} {cnt} time(s) back to back; --duplicate-packets {} requires exactly {}", rfc::summary(&data), self.n, self.n + 1),
                    )
                    .sig("packet", if rfc::is_data(&data) { "DATA" } else { "ACK" }),
                );
            }
            bump(&mut self.probes, "run_of_copies_checked");
        }
        None
    }
}

impl Monitor for DupMon {
    fn on_event(&mut self, _w: &Inner, _st: &Stamp, ev: &Ev) -> Option<Violation> {
        let norm = self.attr.feed(ev);
        if let Some((task, WRecv::Call)) = &norm {
            if self.attr.is_worker(*task) {
                return self.close_run(*task);
            }
        }
        match ev {
            Ev::Send { actor: Actor::Task(t), dst, data, .. } => {
                if Some(*t) == self.attr.listener {
                    // handshake replies: once
                    if self.listener_last.get(dst).map_or(false, |d| **d == **data) {
                        return Some(Violation::new("C16", "C16.handshake_repeated", format!("the first reply {} was sent to {dst} more than once", rfc::summary(data))));
                    }
                    self.listener_last.insert(*dst, data.clone());
                    return None;
                }
                if !self.attr.is_worker(*t) {
                    return None;
                }
                let judged = matches!(rfc::decode(data), Some(Pkt::Data { .. }) | Some(Pkt::Ack(_)));
                if !judged {
                    // an ERROR reply of a worker (e.g. to a bad OACK acknowledgement) is sent once
                    if matches!(rfc::decode(data), Some(Pkt::Error { .. })) {
                        if self.last_worker_error.get(t).map_or(false, |d| **d == **data) {
                            return Some(Violation::new("C16", "C16.error_reply_repeated", format!("task{t} sent {} more than once", rfc::summary(data))));
                        }
                        self.last_worker_error.insert(*t, data.clone());
                    }
                    return self.close_run(*t);
                }
                match self.run.get_mut(t) {
                    Some((d, cnt)) if **d == **data => {
                        *cnt += 1;
                        if *cnt > self.n + 1 {
                            return self.close_run(*t);
                        }
                    }
                    _ => {
                        let v = self.close_run(*t);
                        self.run.insert(*t, (data.clone(), 1));
                        return v;
                    }
                }
            }
            Ev::SendErr { actor: Actor::Task(t), data, .. } if self.attr.is_worker(*t) => {
                // a copy the socket refused (e.g. ECONNREFUSED after the peer closed): still an emission attempt
                bump(&mut self.probes, "copy_refused_by_socket");
                match self.run.get_mut(t) {
                    Some((d, cnt)) if **d == **data => {
                        *cnt += 1;
                        if *cnt > self.n + 1 {
                            return self.close_run(*t);
                        }
                    }
                    _ => {
                        let v = self.close_run(*t);
                        if matches!(rfc::decode(data), Some(Pkt::Data { .. }) | Some(Pkt::Ack(_))) {
                            self.run.insert(*t, (data.clone(), 1));
                        }
                        return v;
                    }
                }
            }
            Ev::RecvRet { task, .. } if Some(*task) == self.attr.listener => {
                // a new request from the same client may legitimately get the same first reply again
                self.listener_last.clear();
            }
            Ev::End { task, .. } => return self.close_run(*task),
            _ => {}
        }
        None
    }

    fn probes(&self, out: &mut BTreeMap<&'static str, u64>) {
        for (k, v) in &self.probes {
            *out.entry(k).or_insert(0) += v;
        }
    }

    fn as_any(&self) -> &dyn Any {
        self
    }
}

// ------------------------------------------------------------------------------------------
// C13
// ------------------------------------------------------------------------------------------

#[derive(Clone)]
pub struct UploadSpec {
    pub client: SocketAddr,
    pub peer: usize,
    pub content: Arc<Vec<u8>>,
    /// file name of the upload when one endpoint uploads several files in a row
    pub name: Option<&'static str>,
}

struct Up {
    client: SocketAddr,
    path: PathBuf,
    final_received: bool,
    completed: bool,
    ended: bool,
    cleanup_seen: bool,
    inorder: u64,
    last_ack: Option<u16>,
    b: usize,
}

pub struct FsMon {
    attr: Attr,
    pub specs: Vec<UploadSpec>,
    pub keep: bool,
    ups: BTreeMap<TaskId, Up>,
    /// acceptance order per path
    order: BTreeMap<PathBuf, Vec<TaskId>>,
    pending_b: BTreeMap<SocketAddr, usize>,
    /// path -> (task, content) of a completed most-recently-accepted upload
    settled: BTreeMap<PathBuf, (TaskId, Arc<Vec<u8>>)>,
    pub probes: BTreeMap<&'static str, u64>,
}

impl FsMon {
    pub fn new(specs: Vec<UploadSpec>, keep: bool) -> FsMon {
        FsMon { attr: Attr::default(), specs, keep, ups: BTreeMap::new(), order: BTreeMap::new(), pending_b: BTreeMap::new(), settled: BTreeMap::new(), probes: BTreeMap::new() }
    }

    fn content_of(&self, client: SocketAddr, path: &std::path::Path) -> Option<Arc<Vec<u8>>> {
        let fname = path.file_name().map(|f| f.to_string_lossy().into_owned());
        self.specs.iter().find(|s| s.client == client && (s.name.is_none() || s.name.map(|n| n.to_string()) == fname)).map(|s| s.content.clone())
    }

    /// The settled files must hold exactly the completed upload's content.
    fn check_settled(&self, trigger: Option<TaskId>) -> Option<Violation> {
        for (path, (task, content)) in &self.settled {
            let got = std::fs::read(path).ok();
            if got.as_deref() != Some(content.as_slice()) {
                let (rule, what) = match &got {
                    None => ("C13.completed_upload_removed", "no longer exists".to_string()),
                    Some(g) => ("C13.completed_upload_altered", format!("now holds {} bytes that differ from the upload (first difference at byte {})", g.len(), g.iter().zip(content.iter()).position(|(a, b)| a != b).unwrap_or(g.len().min(content.len())))),
                };
                // who else owns this path?
                let order = self.order.get(path).cloned().unwrap_or_default();
                let me = order.iter().position(|x| x == task);
                let earlier: Vec<TaskId> = order.iter().enumerate().filter(|(i, _)| Some(*i) < me).map(|(_, t)| *t).collect();
                let by = if !earlier.is_empty() { "earlier-accepted worker" } else { "nobody-else-owns-the-path" };
                let how = match (&got, trigger) {
                    (None, _) => "unlinked by the clean-up of a failed transfer".to_string(),
                    (Some(_), _) => "truncated/overwritten through another handle on the same path".to_string(),
                };
                return Some(
                    Violation::new(
                        "C13",
                        rule,
                        format!(
                            "the upload accepted last for {} (task{task}) completed with {} bytes, but the file {what}; {how}; other workers accepted earlier for this path: {:?}{}",
                            path.file_name().unwrap_or_default().to_string_lossy(),
                            content.len(),
                            earlier,
                            trigger.map(|t| format!("; noticed when task{t} ended")).unwrap_or_default()
                        ),
                    )
                    .sig("by", by),
                );
            }
        }
        None
    }
}

impl Monitor for FsMon {
    fn on_event(&mut self, _w: &Inner, _st: &Stamp, ev: &Ev) -> Option<Violation> {
        let norm = self.attr.feed(ev);
        if let Some((task, WRecv::Data(bytes))) = &norm {
            if let Some(u) = self.ups.get_mut(task) {
                if let Some(Pkt::Data { n, payload }) = rfc::decode(bytes) {
                    if n == (u.inorder + 1) as u16 && !u.final_received {
                        u.inorder += 1;
                        if payload.len() < u.b {
                            u.final_received = true;
                        }
                    }
                }
            }
        }
        match ev {
            Ev::Send { actor: Actor::Task(t), dst, data, .. } => {
                if Some(*t) == self.attr.listener {
                    if let Some(Pkt::Oack(o)) = rfc::decode(data) {
                        let b = rfc::opt(&o, "blksize").and_then(|v| v.parse().ok()).unwrap_or(512);
                        self.pending_b.insert(*dst, b);
                    } else if let Some(Pkt::Ack(0)) = rfc::decode(data) {
                        self.pending_b.insert(*dst, 512);
                    }
                } else if let Some(u) = self.ups.get_mut(t) {
                    let mut settle = None;
                    if let Some(Pkt::Ack(n)) = rfc::decode(data) {
                        u.last_ack = Some(n);
                        if u.final_received && n == u.inorder as u16 && !u.completed {
                            u.completed = true;
                            // completed is completed: from the acknowledgement of the final block on, the file
                            // of the most recently accepted upload holds its content, whatever that worker or
                            // an older one does afterwards
                            if !u.cleanup_seen && self.order.get(&u.path).and_then(|o| o.last().copied()) == Some(*t) {
                                settle = Some((u.path.clone(), u.client));
                            }
                        }
                    }
                    if let Some((path, client)) = settle {
                        if let Some(c) = self.content_of(client, &path) {
                            self.settled.insert(path, (*t, c));
                            bump(&mut self.probes, "latest_accepted_upload_completed");
                        }
                    }
                }
            }
            Ev::Fs { task: Actor::Task(t), op, path } => match *op {
                "create" => {
                    let client = self.attr.client_of(*t)?;
                    let b = self.pending_b.get(&client).copied().unwrap_or(512);
                    self.ups.insert(*t, Up { client, path: path.clone(), final_received: false, completed: false, ended: false, cleanup_seen: false, inorder: 0, last_ack: None, b });
                    let o = self.order.entry(path.clone()).or_default();
                    // acceptance order = spawn order
                    o.push(*t);
                    o.sort_by_key(|x| self.attr.spawn_order.iter().position(|y| y == x));
                    if o.len() > 1 {
                        bump(&mut self.probes, "two_workers_one_path");
                    }
                    // a newly accepted upload supersedes whatever was settled for this path
                    if let Some((st, _)) = self.settled.get(path) {
                        let o = &self.order[path];
                        if o.iter().position(|x| x == t) > o.iter().position(|x| x == st) {
                            self.settled.remove(path);
                        }
                    }
                }
                "remove" | "keep" => {
                    if let Some(u) = self.ups.get_mut(t) {
                        u.cleanup_seen = true;
                    }
                }
                _ => {}
            },
            Ev::DiskWrite { task: Actor::Task(t), .. } => {
                // a write of a stale worker into a settled file is judged when that worker next parks; cheap check here
                if self.settled.values().all(|(st, _)| st != t) && self.ups.contains_key(t) && !self.settled.is_empty() {
                    // the write itself happens after this point; checked at the worker's next event
                    let _ = t;
                }
            }
            Ev::End { task, .. } => {
                if let Some(u) = self.ups.get_mut(task) {
                    u.ended = true;
                }
                // the ending task may just have cleaned up: settled files must be intact
                if let Some(u) = self.ups.get(task) {
                    if u.cleanup_seen && self.settled.contains_key(&u.path) {
                        bump(&mut self.probes, "stale_worker_outlives_completed_upload");
                    }
                    if let Some(v) = self.check_settled(Some(*task)) {
                        return Some(v);
                    }
                }
            }
            _ => {}
        }
        None
    }

    fn at_end(&mut self, w: &Inner, end: EndReason) -> Option<Violation> {
        if let Some(v) = self.check_settled(None) {
            return Some(v);
        }
        if end != EndReason::Quiescent {
            // the run was cut off: an upload worker that is still going never reached its clean-up
            for (path, tasks) in &self.order {
                if tasks.iter().any(|t| w.task_alive(*t)) {
                    return Some(Violation::new("C13", "C13.worker_never_ended", format!("an upload worker for {} is still running when the run is cut off ({end:?}): the failed upload is never cleaned up", path.display())));
                }
            }
            return None;
        }
        // per path: if every worker for it failed, the clean/keep rule applies
        for (path, tasks) in &self.order {
            if self.settled.contains_key(path) {
                continue;
            }
            if tasks.iter().any(|t| !self.ups[t].ended || w.task_alive(*t)) {
                return Some(Violation::new("C13", "C13.worker_never_ended", format!("an upload worker for {} is still alive when nothing is left to happen", path.display())));
            }
            if tasks.iter().any(|t| self.ups[t].completed) {
                continue; // a completed upload that is not the latest accepted: outside the statement
            }
            bump(&mut self.probes, "all_uploads_of_path_failed");
            let exists = path.exists();
            if !self.keep {
                if exists {
                    return Some(Violation::new("C13", "C13.partial_file_left", format!("every upload of {} failed and clean-on-error is in force, yet the file is still there ({} bytes)", path.display(), std::fs::metadata(path).map(|m| m.len()).unwrap_or(0))).sig("mode", "clean"));
                }
            } else if tasks.len() == 1 {
                let u = &self.ups[&tasks[0]];
                let sent = self.content_of(u.client, path).unwrap_or_default();
                match std::fs::read(path) {
                    Ok(f) => {
                        if !sent.starts_with(&f) {
                            return Some(Violation::new("C13", "C13.kept_file_not_prefix", format!("keep-on-error: the kept file ({} bytes) is not a prefix of the {} bytes the client sent", f.len(), sent.len())).sig("mode", "keep"));
                        }
                        bump(&mut self.probes, "kept_partial_file_checked");
                    }
                    Err(_) => {
                        return Some(Violation::new("C13", "C13.kept_file_missing", format!("keep-on-error is in force but the partial file {} is gone", path.display())).sig("mode", "keep"));
                    }
                }
            }
        }
        None
    }

    fn probes(&self, out: &mut BTreeMap<&'static str, u64>) {
        for (k, v) in &self.probes {
            *out.entry(k).or_insert(0) += v;
        }
    }

    fn as_any(&self) -> &dyn Any {
        self
    }
}

// ------------------------------------------------------------------------------------------
// C12
// ------------------------------------------------------------------------------------------

#[derive(Clone)]
pub struct ClientSpec {
    pub client: SocketAddr,
    pub peer: usize,
    pub upload: bool,
    pub content: Arc<Vec<u8>>,
    pub path: PathBuf,
}

pub struct IsoMon {
    attr: Attr,
    pub clients: Vec<ClientSpec>,
    pub intruders: Vec<(usize, SocketAddr)>,
    pub listen: SocketAddr,
    pub single_port: bool,
    /// live transfer source ports (multi-port)
    live_src: BTreeMap<SocketAddr, SocketAddr>,
    /// well-formed non-requests an intruder sent to the listening port, awaiting their ERROR
    owed_errors: BTreeMap<SocketAddr, u64>,
    got_errors: BTreeMap<SocketAddr, u64>,
    active_peer: BTreeMap<SocketAddr, usize>,
    /// workers alive per client address (a client whose workers have all ended owns no transfer any more)
    live_workers: BTreeMap<SocketAddr, i64>,
    had_worker: BTreeSet<SocketAddr>,
    /// endpoints that abandoned an upload before their listed transfer: late ACKs for it are theirs
    pub abandoned_upload_from: Vec<SocketAddr>,
    pub probes: BTreeMap<&'static str, u64>,
}

impl IsoMon {
    pub fn new(clients: Vec<ClientSpec>, intruders: Vec<(usize, SocketAddr)>, listen: SocketAddr, single_port: bool) -> IsoMon {
        IsoMon { attr: Attr::default(), clients, intruders, listen, single_port, live_src: BTreeMap::new(), owed_errors: BTreeMap::new(), got_errors: BTreeMap::new(), active_peer: BTreeMap::new(), live_workers: BTreeMap::new(), had_worker: BTreeSet::new(), abandoned_upload_from: vec![], probes: BTreeMap::new() }
    }
    fn v(&self, rule: &str, detail: String) -> Violation {
        Violation::new("C12", &format!("C12.{rule}"), detail).sig("mode", if self.single_port { "single-port" } else { "multi-port" })
    }
}

impl Monitor for IsoMon {
    fn on_event(&mut self, _w: &Inner, _st: &Stamp, ev: &Ev) -> Option<Violation> {
        self.attr.feed(ev);
        match ev {
            Ev::Send { actor: Actor::Task(t), src, dst, data, .. } => {
                let is_listener = Some(*t) == self.attr.listener;
                let pkt = rfc::decode(data);
                // source port discipline
                if self.single_port {
                    if *src != self.listen {
                        return Some(self.v("source_port", format!("single-port mode: task{t} sent {} from {src}, not from the listening address {}", rfc::summary(data), self.listen)));
                    }
                } else if !is_listener || matches!(pkt, Some(Pkt::Data { .. })) {
                    if src.port() == self.listen.port() {
                        return Some(self.v("source_port", format!("multi-port mode: task{t} sent data-phase datagram {} from the listening port", rfc::summary(data))));
                    }
                    if let Some(other) = self.live_src.iter().find(|(c, s)| **s == *src && **c != *dst).map(|(c, _)| *c) {
                        return Some(self.v("shared_transfer_port", format!("transfer port {src} serves both {other} and {dst}")));
                    }
                    self.live_src.insert(*dst, *src);
                }
                // an ERROR to a client endpoint whose transfer is over (answer to a late packet)
                if matches!(pkt, Some(Pkt::Error { .. })) && self.clients.iter().any(|c| c.client == *dst) && is_listener {
                    *self.got_errors.entry(*dst).or_insert(0) += 1;
                }
                // is the datagram explained by the receiver's own activity?
                if let Some((_, ia)) = self.intruders.iter().find(|(_, a)| a == dst) {
                    match pkt {
                        Some(Pkt::Error { .. }) => {
                            *self.got_errors.entry(*ia).or_insert(0) += 1;
                        }
                        _ => {
                            return Some(self.v("leak_to_foreign_endpoint", format!("{} was sent to {dst}, an endpoint that owns no transfer", rfc::summary(data))));
                        }
                    }
                } else if let Some(c) = self.clients.iter().find(|c| c.client == *dst && self.active_peer.get(dst).map_or(true, |p| *p == c.peer)) {
                    match pkt {
                        Some(Pkt::Data { .. }) => {
                            if c.upload {
                                return Some(self.v("foreign_datagram_to_client", format!("DATA sent to {dst}, which is uploading")));
                            }
                        }
                        Some(Pkt::Ack(_)) if !c.upload && !self.abandoned_upload_from.contains(dst) => {
                            return Some(self.v("foreign_datagram_to_client", format!("ACK sent to {dst}, which is downloading")));
                        }
                        _ => {}
                    }
                }
            }
            Ev::Send { actor: Actor::Peer(p), src, .. } => {
                self.active_peer.insert(*src, *p);
            }
            Ev::Deliver { dst, src, data, to_peer: None, .. } if *dst == self.listen => {
                // a well-formed non-request from an endpoint that owns no transfer is owed an ERROR
                let well_formed = matches!(rfc::decode(data), Some(Pkt::Data { .. }) | Some(Pkt::Ack(_)) | Some(Pkt::Error { code: 0..=7, .. }) | Some(Pkt::Oack(_))) && repo_decodable(data);
                if let Some((_, ia)) = self.intruders.iter().find(|(_, a)| a == src) {
                    if well_formed {
                        *self.owed_errors.entry(*ia).or_insert(0) += 1;
                    }
                } else if self.single_port && well_formed && self.had_worker.contains(src) && self.live_workers.get(src).copied().unwrap_or(0) <= 0 {
                    // a late duplicate from a client whose transfer has ended: it owns no transfer any more
                    *self.owed_errors.entry(*src).or_insert(0) += 1;
                    bump(&mut self.probes, "late_packet_after_transfer_end");
                }
            }
            Ev::Spawn { task, .. } => {
                if let Some(x) = self.attr.client_of(*task) {
                    *self.live_workers.entry(x).or_insert(0) += 1;
                    self.had_worker.insert(x);
                }
            }
            Ev::End { task, .. } => {
                if let Some(x) = self.attr.client_of(*task) {
                    *self.live_workers.entry(x).or_insert(0) -= 1;
                }
            }
            Ev::Close { addr, .. } => {
                self.live_src.retain(|_, s| s != addr);
            }
            _ => {}
        }
        None
    }

    fn at_end(&mut self, w: &Inner, end: EndReason) -> Option<Violation> {
        if end != EndReason::Quiescent {
            return Some(self.v("run_did_not_settle", format!("the run ended with {end:?}")));
        }
        for c in &self.clients {
            if c.upload {
                let st = w.peer::<Writer>(c.peer).map(|x| x.status.clone());
                let got = std::fs::read(&c.path).ok();
                // The server never dallies: in single-port mode a late duplicate that arrives after the
                // worker has finished is answered with an ERROR, which may overtake the final ACK. The
                // upload itself is judged by what the server stored.
                let _ = &st;
                if got.as_deref() != Some(c.content.as_slice()) {
                    return Some(self.v("transfer_disturbed", format!("upload of {} ended {:?}; stored file has {:?} bytes, expected {}", c.client, st, got.as_ref().map(|g| g.len()), c.content.len())).sig("role", "upload"));
                }
            } else if let Some(r) = w.peer::<Reader>(c.peer) {
                if r.status != Status::Done || r.buf != *c.content {
                    return Some(self.v("transfer_disturbed", format!("download of {} ended {:?} with {} of {} bytes (identical: {})", c.client, r.status, r.buf.len(), c.content.len(), r.buf == *c.content)).sig("role", "download"));
                }
            }
            bump(&mut self.probes, "client_got_own_file");
        }
        for c in &self.clients {
            let owed = self.owed_errors.get(&c.client).copied().unwrap_or(0);
            let got = self.got_errors.get(&c.client).copied().unwrap_or(0);
            if got < owed {
                return Some(self.v("non_request_not_answered", format!("{} sent {owed} late packet(s) to the listening port after its transfer had ended but received only {got} ERROR replies", c.client)).sig("who", "former client"));
            }
        }
        for (p, ia) in &self.intruders {
            let owed = self.owed_errors.get(ia).copied().unwrap_or(0);
            let got = self.got_errors.get(ia).copied().unwrap_or(0);
            if got < owed {
                return Some(self.v("non_request_not_answered", format!("intruder {ia} sent {owed} well-formed non-request packets to the listening port but received only {got} ERROR replies")));
            }
            if owed > 0 {
                bump(&mut self.probes, "intruder_answered_with_error");
            }
            if let Some(s) = w.peer::<Scripted>(*p) {
                for (_, _, d) in &s.received {
                    if !matches!(rfc::decode(d), Some(Pkt::Error { .. })) {
                        return Some(self.v("leak_to_foreign_endpoint", format!("intruder {ia} received {}", rfc::summary(d))));
                    }
                }
            }
        }
        None
    }

    fn probes(&self, out: &mut BTreeMap<&'static str, u64>) {
        for (k, v) in &self.probes {
            *out.entry(k).or_insert(0) += v;
        }
    }

    fn as_any(&self) -> &dyn Any {
        self
    }
}

/// Would the repository's decoder accept this datagram (the statement says "well-formed")?
fn repo_decodable(d: &[u8]) -> bool {
    tftpd::Packet::deserialize(d).is_ok()
}

// ------------------------------------------------------------------------------------------
// C14
// ------------------------------------------------------------------------------------------

pub struct CsResult {
    pub run_result: Option<Result<(), String>>,
}

pub struct CsMon {
    pub upload: bool,
    pub expect_refusal: bool,
    pub content: Arc<Vec<u8>>,
    /// where the file must end up
    pub server_path: PathBuf,
    pub client_path: PathBuf,
    pub client_dir: PathBuf,
    pub result: Arc<std::sync::Mutex<CsResult>>,
    pub probes: BTreeMap<&'static str, u64>,
    pub desc: String,
}

impl Monitor for CsMon {
    fn on_event(&mut self, _w: &Inner, _st: &Stamp, _ev: &Ev) -> Option<Violation> {
        None
    }

    fn at_end(&mut self, _w: &Inner, end: EndReason) -> Option<Violation> {
        let res = self.result.lock().unwrap().run_result.clone();
        let role = if self.upload { "upload" } else { "download" };
        let v = |rule: &str, d: String| Some(Violation::new("C14", &format!("C14.{rule}"), d).sig("role", role));
        if end != EndReason::Quiescent {
            return v("client_never_returns", format!("run ended with {end:?}: {}", self.desc));
        }
        let res = match res {
            Some(r) => r,
            None => return v("client_never_returns", format!("Client::run did not return: {}", self.desc)),
        };
        if self.expect_refusal {
            bump(&mut self.probes, "refusal_case");
            if res.is_ok() {
                return v("refusal_not_reported", format!("the server refused the request but Client::run returned Ok: {}", self.desc));
            }
            if !self.upload && self.client_path.exists() {
                return v("file_created_on_refusal", format!("the server refused the download but the client created {}", self.client_path.display()));
            }
            // nothing else may have appeared in the client's receive directory
            if !self.upload {
                if let Ok(rd) = std::fs::read_dir(&self.client_dir) {
                    if rd.count() > 0 {
                        return v("file_created_on_refusal", "the client's receive directory is not empty after a refused download".to_string());
                    }
                }
            }
            return None;
        }
        if let Err(e) = &res {
            return v("client_reports_error", format!("Client::run returned Err({e}) for a request the server accepts: {}", self.desc));
        }
        let (got_path, label) = if self.upload { (&self.server_path, "server") } else { (&self.client_path, "client") };
        match std::fs::read(got_path) {
            Ok(f) if f == *self.content => {
                bump(&mut self.probes, "files_identical");
                None
            }
            Ok(f) => v("files_differ", format!("the file on the {label} side has {} bytes, the source has {} (first difference at byte {}): {}", f.len(), self.content.len(), f.iter().zip(self.content.iter()).position(|(a, b)| a != b).unwrap_or(f.len().min(self.content.len())), self.desc)),
            Err(e) => v("file_missing", format!("expected the transferred file at {} on the {label} side: {e}: {}", got_path.display(), self.desc)),
        }
    }

    fn probes(&self, out: &mut BTreeMap<&'static str, u64>) {
        for (k, v) in &self.probes {
            *out.entry(k).or_insert(0) += v;
        }
    }

    fn as_any(&self) -> &dyn Any {
        self
    }
}

#[allow(dead_code)]
fn _unused(_: BTreeSet<u8>) {}

// ------------------------------------------------------------------------------------------
// C07, files that change while they are served: judged on the wire alone
// ------------------------------------------------------------------------------------------

/// The first DATA block shorter than the acknowledged block length is the end marker. Once the peer has
/// acknowledged it, the sender emits nothing more; whatever happens it ends.
pub struct WireEndMon {
    attr: Attr,
    client: SocketAddr,
    pending_b: BTreeMap<SocketAddr, usize>,
    b: BTreeMap<TaskId, usize>,
    short_block: BTreeMap<TaskId, u16>,
    short_acked: BTreeMap<TaskId, bool>,
    pub probes: BTreeMap<&'static str, u64>,
}

impl WireEndMon {
    pub fn new(client: SocketAddr) -> WireEndMon {
        WireEndMon { attr: Attr::default(), client, pending_b: BTreeMap::new(), b: BTreeMap::new(), short_block: BTreeMap::new(), short_acked: BTreeMap::new(), probes: BTreeMap::new() }
    }
}

impl Monitor for WireEndMon {
    fn on_event(&mut self, _w: &Inner, _st: &Stamp, ev: &Ev) -> Option<Violation> {
        let norm = self.attr.feed(ev);
        if let Some((task, WRecv::Data(bytes))) = &norm {
            if let (Some(Pkt::Ack(n)), Some(s)) = (rfc::decode(bytes), self.short_block.get(task)) {
                if n == *s {
                    self.short_acked.insert(*task, true);
                }
            }
        }
        if let Ev::Send { actor: Actor::Task(t), dst, data, .. } = ev {
            if *dst != self.client {
                return None;
            }
            if Some(*t) == self.attr.listener {
                if let Some(Pkt::Oack(o)) = rfc::decode(data) {
                    self.pending_b.insert(*dst, rfc::opt(&o, "blksize").and_then(|v| v.parse().ok()).unwrap_or(512));
                }
                return None;
            }
            if let Some(Pkt::Data { n, payload }) = rfc::decode(data) {
                let b = *self.b.entry(*t).or_insert_with(|| self.pending_b.get(dst).copied().unwrap_or(512));
                match self.short_block.get(t) {
                    None => {
                        if payload.len() < b {
                            self.short_block.insert(*t, n);
                            bump(&mut self.probes, "short_block_after_truncation_seen");
                        }
                    }
                    Some(s) => {
                        if n != *s && self.short_acked.get(t).copied().unwrap_or(false) {
                            return Some(Violation::new("C07", "C07.data_after_acknowledged_final_block", format!("task{t} sent DATA({n}, {} bytes) after its short block {s} (the end marker) had been acknowledged", payload.len())));
                        }
                        if n != *s && n.wrapping_sub(*s) < 0x8000 {
                            return Some(Violation::new("C07", "C07.block_beyond_final", format!("task{t} sent DATA({n}) beyond the short block {s} it had already sent as the end of the transfer")));
                        }
                    }
                }
            }
        }
        None
    }

    fn at_end(&mut self, w: &Inner, end: EndReason) -> Option<Violation> {
        for t in &self.attr.spawn_order {
            if w.task_alive(*t) {
                return Some(Violation::new("C07", "C07.never_ends", format!("task{t} is still alive at the end of the run ({end:?})")));
            }
        }
        None
    }

    fn probes(&self, out: &mut BTreeMap<&'static str, u64>) {
        for (k, v) in &self.probes {
            *out.entry(k).or_insert(0) += v;
        }
    }

    fn as_any(&self) -> &dyn std::any::Any {
        self
    }
}
