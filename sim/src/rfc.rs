//! Independent TFTP codec written from RFC 1350 / 2347 (used by model peers and monitors;
//! never the repository's own encoder or decoder).

#[derive(Clone, Debug, PartialEq)]
pub enum Pkt {
    Rrq { file: String, mode: String, opts: Vec<(String, String)> },
    Wrq { file: String, mode: String, opts: Vec<(String, String)> },
    Data { n: u16, payload: Vec<u8> },
    Ack(u16),
    Error { code: u16, msg: String },
    Oack(Vec<(String, String)>),
}

fn put_str(out: &mut Vec<u8>, s: &str) {
    out.extend_from_slice(s.as_bytes());
    out.push(0);
}

pub fn encode(p: &Pkt) -> Vec<u8> {
    let mut out = Vec::new();
    match p {
        Pkt::Rrq { file, mode, opts } | Pkt::Wrq { file, mode, opts } => {
            out.extend_from_slice(&[0, if matches!(p, Pkt::Rrq { .. }) { 1 } else { 2 }]);
            put_str(&mut out, file);
            put_str(&mut out, mode);
            for (k, v) in opts {
                put_str(&mut out, k);
                put_str(&mut out, v);
            }
        }
        Pkt::Data { n, payload } => {
            out.extend_from_slice(&[0, 3, (n >> 8) as u8, *n as u8]);
            out.extend_from_slice(payload);
        }
        Pkt::Ack(n) => out.extend_from_slice(&[0, 4, (n >> 8) as u8, *n as u8]),
        Pkt::Error { code, msg } => {
            out.extend_from_slice(&[0, 5, (code >> 8) as u8, *code as u8]);
            put_str(&mut out, msg);
        }
        Pkt::Oack(opts) => {
            out.extend_from_slice(&[0, 6]);
            for (k, v) in opts {
                put_str(&mut out, k);
                put_str(&mut out, v);
            }
        }
    }
    out
}

fn strings(b: &[u8]) -> Option<Vec<String>> {
    let mut v = Vec::new();
    let mut st = 0;
    for (i, c) in b.iter().enumerate() {
        if *c == 0 {
            v.push(String::from_utf8_lossy(&b[st..i]).into_owned());
            st = i + 1;
        }
    }
    if st != b.len() {
        return None; // unterminated tail
    }
    Some(v)
}

pub fn decode(b: &[u8]) -> Option<Pkt> {
    if b.len() < 2 || b[0] != 0 {
        return None;
    }
    match b[1] {
        1 | 2 => {
            let s = strings(&b[2..])?;
            if s.len() < 2 || (s.len() - 2) % 2 != 0 {
                return None;
            }
            let opts = s[2..].chunks(2).map(|c| (c[0].clone(), c[1].clone())).collect();
            if b[1] == 1 {
                Some(Pkt::Rrq { file: s[0].clone(), mode: s[1].clone(), opts })
            } else {
                Some(Pkt::Wrq { file: s[0].clone(), mode: s[1].clone(), opts })
            }
        }
        3 if b.len() >= 4 => Some(Pkt::Data { n: u16::from_be_bytes([b[2], b[3]]), payload: b[4..].to_vec() }),
        4 if b.len() >= 4 => Some(Pkt::Ack(u16::from_be_bytes([b[2], b[3]]))),
        5 if b.len() >= 4 => {
            let msg = match b[4..].iter().position(|c| *c == 0) {
                Some(i) => String::from_utf8_lossy(&b[4..4 + i]).into_owned(),
                None => String::from_utf8_lossy(&b[4..]).into_owned(),
            };
            Some(Pkt::Error { code: u16::from_be_bytes([b[2], b[3]]), msg })
        }
        6 => {
            let s = strings(&b[2..])?;
            if s.len() % 2 != 0 {
                return None;
            }
            Some(Pkt::Oack(s.chunks(2).map(|c| (c[0].clone(), c[1].clone())).collect()))
        }
        _ => None,
    }
}

pub fn is_data(b: &[u8]) -> bool {
    b.len() >= 4 && b[0] == 0 && b[1] == 3
}

/// Short human-readable form for traces.
pub fn summary(b: &[u8]) -> String {
    match decode(b) {
        Some(Pkt::Rrq { file, opts, .. }) => format!("RRQ({file:?}{})", fmt_opts(&opts)),
        Some(Pkt::Wrq { file, opts, .. }) => format!("WRQ({file:?}{})", fmt_opts(&opts)),
        Some(Pkt::Data { n, payload }) => format!("DATA({n},len={})", payload.len()),
        Some(Pkt::Ack(n)) => format!("ACK({n})"),
        Some(Pkt::Error { code, msg }) => format!("ERROR({code},{msg:?})"),
        Some(Pkt::Oack(opts)) => format!("OACK({})", fmt_opts(&opts).trim_start_matches(',')),
        None => {
            let head: Vec<String> = b.iter().take(8).map(|x| format!("{x:02x}")).collect();
            format!("RAW(len={},{})", b.len(), head.join(""))
        }
    }
}

fn fmt_opts(o: &[(String, String)]) -> String {
    let mut s = String::new();
    for (k, v) in o {
        let k: String = k.chars().take(24).collect();
        let v: String = v.chars().take(24).collect();
        s.push_str(&format!(",{k}={v}"));
    }
    s
}

/// Value of an option in a list read front to back: the last occurrence is the one in force.
pub fn opt<'a>(opts: &'a [(String, String)], name: &str) -> Option<&'a str> {
    opts.iter().rev().find(|(k, _)| k.eq_ignore_ascii_case(name)).map(|(_, v)| v.as_str())
}
