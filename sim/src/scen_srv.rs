//! Server-level scenarios: access policy (C06), confinement (C03), option negotiation (C09),
//! hostile datagrams (C05).
use crate::common::{boot_server, content, Sandbox, ServerCfg};
use crate::peers::{Adv, Reader, Scripted, Target, Writer, XferCfg};
use crate::rfc::{self, Pkt};
use crate::scen::{draw_options, Draw, Scn, Tier};
use crate::srv_mon::{honourable, numeric, LiveMon, Mode, OptMon, ReqInfo, ReqMon};
use crate::world::{Ns, World, MS, SEC};
use crate::xfer_mon::{Kind, Rules, XferMon, XferSpec};
use std::sync::Arc;

const GAP: Ns = 4000 * SEC;

fn base_cfg(d: &Draw, dir: &std::path::Path) -> ServerCfg {
    let mut fc = crate::world::FaultCfg::default();
    crate::scen::light_sched(d, &mut fc);
    d.w.lock().cfg = fc;
    let mut srv = ServerCfg::new(dir);
    srv.single_port = d.chance("swarm.single_port", 1, 2);
    srv.v6 = d.chance("swarm.ipv6", 1, 8);
    // flags that should not matter for the property at hand are varied all the same
    srv.keep_on_error = d.chance("swarm.flag.keep_on_error", 1, 6);
    if d.chance("swarm.flag.duplicate_packets", 1, 8) {
        srv.dup = Some("1".into());
    }
    srv.arg_rot = d.range("swarm.arg_rotation", 8) as usize;
    srv
}

// ------------------------------------------------------------------------------------------
// C06
// ------------------------------------------------------------------------------------------

pub fn policy(_tier: Tier, w: &Arc<World>) -> Scn {
    let d = Draw { w };
    let sandbox = Sandbox::new();
    w.lock().sb_root = sandbox.root.to_string_lossy().into_owned();
    let distinct = d.chance("swarm.distinct_dirs", 1, 3);
    let (send, recv) = if distinct { (sandbox.dir("send"), sandbox.dir("recv")) } else { (sandbox.dir("srv"), sandbox.dir("srv")) };
    let mut srv = base_cfg(&d, &send);
    if distinct {
        // a directory not named by its own flag falls back to -d
        match d.range("swarm.dir_layout", 3) {
            0 => {
                srv.send_dir = Some(send.clone());
                srv.recv_dir = Some(recv.clone());
            }
            1 => {
                srv.dir = recv.clone();
                srv.send_dir = Some(send.clone());
            }
            _ => srv.recv_dir = Some(recv.clone()),
        }
    }
    srv.read_only = d.chance("swarm.read_only", 1, 4);
    srv.overwrite = d.chance("swarm.overwrite", 1, 2);
    srv.keep_on_error = d.chance("swarm.keep_on_error", 1, 4);
    // initial files
    let short = content(700, 11);
    let long = content(5000, 12);
    for dir in [&send, &recv] {
        std::fs::write(dir.join("a.bin"), &short).unwrap();
        std::fs::write(dir.join("b.bin"), &long).unwrap();
        std::fs::create_dir_all(dir.join("sub")).unwrap();
        std::fs::write(dir.join("sub/c.bin"), content(1300, 13)).unwrap();
        std::fs::write(dir.join("empty.bin"), b"").unwrap();
    }
    let names = ["a.bin", "b.bin", "sub/c.bin", "new1.bin", "new2.bin", "sub/new.bin", "missing.bin", "/a.bin", "sub\\c.bin", "nodir/missing.bin", "a.bin/x.bin", "sub/deeper/none.bin", "empty.bin", "new1.bin"];
    let n = 2 + d.range("swarm.requests", 5) as usize;
    let mut reqs: Vec<ReqInfo> = vec![];
    let mut desc = format!("policy {} distinct_dirs={distinct} requests=[", srv.describe());
    // names that make the refusal text long, with a multi-byte character at every alignment
    let long_names: Vec<String> = (0..4).map(|k| format!("{}{}", "a".repeat(k), "\u{e9}".repeat(238))).collect();
    for i in 0..n {
        let mut write = d.chance("swarm.req.write", 1, 2);
        let mut name: &str = d.pick("swarm.req.name", &names);
        if !srv.overwrite && d.chance("swarm.req.directory_target", 1, 12) {
            // a write request that names an existing directory: refused, nothing starts
            write = true;
            name = d.pick("swarm.req.directory", &["sub", "sub/"]);
        } else if d.chance("swarm.req.long_name", 1, 16) {
            write = false;
            name = long_names[d.range("swarm.req.long_name.align", 4) as usize].as_str();
        }
        let mut oc = draw_options(&d, false, None);
        if name.len() > 200 {
            // a request datagram is at most 512 octets (RFC 2347): the long names travel without options
            oc.opts.clear();
        }
        let len = d.pick("swarm.req.len", &[300usize, 0, 1, 512, 700, 5000, 1024, 2100]);
        let data = Arc::new(content(len, 40 + i as u64));
        let mut xc = XferCfg::new(srv.addr(), name);
        xc.opts = oc.opts.clone();
        for o in xc.opts.iter_mut() {
            if o.0 == "tsize" {
                o.1 = if write { len.to_string() } else { "0".into() };
            }
        }
        if name.len() <= 200 && d.chance("swarm.req.unhonourable_option", 1, 6) {
            // the policy decision must not depend on whether the options could be honoured
            let (k, v) = d.pick("swarm.req.bad_option", &[("timeout", "0"), ("windowsize", "0"), ("blksize", "4"), ("blksize", "65465"), ("windowsize", "65536")]);
            xc.opts.retain(|(n, _)| n != k);
            xc.opts.push((k.to_string(), v.to_string()));
        }
        xc.timeout_ns = oc.tmo_s * SEC;
        xc.resend_request = false;
        xc.retries = 3;
        let sent_opts = xc.opts.clone();
        // a client may use one socket for several requests in a row (the earlier transfer is long over)
        let reuse = if i > 0 && d.chance("swarm.req.reuse_endpoint", 1, 3) { Some(reqs[d.range("swarm.req.reuse_which", i as u32) as usize].peer) } else { None };
        // clients may sit on any source port, also a privileged one
        let sport: u16 = if d.chance("swarm.req.low_source_port", 1, 8) { [1023u16, 1, 512, 68][(i % 4) as usize] + 0 } else { 0 };
        let sport = if reqs.iter().any(|r: &ReqInfo| r.client.port() == sport) { 0 } else { sport };
        let (peer, client) = match (write, reuse) {
            (true, None) => w.add_peer(Box::new(Writer::new(xc, data.to_vec())), srv.v6, sport),
            (false, None) => w.add_peer(Box::new(Reader::new(xc)), srv.v6, sport),
            (true, Some(k)) => w.add_peer_on(Box::new(Writer::new(xc, data.to_vec())), k),
            (false, Some(k)) => w.add_peer_on(Box::new(Reader::new(xc)), k),
        };
        desc.push_str(&format!("{}{:?}{:?}{} ", if write { "W" } else { "R" }, name, sent_opts, if reuse.is_some() { "(same socket as an earlier request)" } else { "" }));
        reqs.push(ReqInfo { client, peer, write, name: name.to_string(), content: data, tolerate_stale_data: false });
        w.start_peer_at(peer, 10 * MS + i as Ns * GAP);
    }
    if d.chance("swarm.returning_endpoint", 1, 4) {
        // an endpoint abandons a download (its worker keeps retrying for a while) and comes back two
        // seconds later with a request that must be refused
        let t0 = 10 * MS + n as Ns * GAP;
        let mut xa = XferCfg::new(srv.addr(), "b.bin");
        xa.resend_request = false;
        xa.script.push((1, Adv::Silent));
        let (pa, ca) = w.add_peer(Box::new(Reader::new(xa)), srv.v6, 0);
        reqs.push(ReqInfo { client: ca, peer: pa, write: false, name: "b.bin".into(), content: Arc::new(vec![]), tolerate_stale_data: false });
        w.start_peer_at(pa, t0);
        let write = srv.read_only || d.chance("swarm.returning.write", 1, 2);
        let name = if write { "a.bin" } else { "never.bin" };
        let mut xb = XferCfg::new(srv.addr(), name);
        xb.resend_request = false;
        xb.retries = 2;
        let (pb, cb) = if write { w.add_peer_on(Box::new(Writer::new(xb, content(100, 99))), pa) } else { w.add_peer_on(Box::new(Reader::new(xb)), pa) };
        reqs.push(ReqInfo { client: cb, peer: pb, write, name: name.to_string(), content: Arc::new(content(100, 99)), tolerate_stale_data: true });
        w.start_peer_at(pb, t0 + 2 * SEC);
        desc.push_str(&format!(" then R\"b.bin\"(abandoned) and, from the same endpoint 2 s later, {}{name:?}", if write { "W" } else { "R" }));
    }
    desc.push(']');
    w.add_monitor(Box::new(ReqMon::new("C06", Mode::Policy, reqs, sandbox.root.clone(), send, recv, srv.addr(), srv.read_only, srv.overwrite)));
    boot_server(w, &srv).expect("server config");
    Scn { sandbox, desc, step_cap: 400_000, time_cap: 100_000_000 * SEC, faultfree: true }
}

// ------------------------------------------------------------------------------------------
// C03
// ------------------------------------------------------------------------------------------

fn draw_name(d: &Draw, root: &str) -> String {
    let segs = ["..", ".", "", "a", "sub", "secret.txt", "served", "served-evil", "etc", "pub.txt", "inner.txt", "recv", "x", "..", "new.txt", "passwd", "...", ". .", "..x", "x.."];
    let seps = ["/", "\\", "//", "\\/", "/./", "\\\\"];
    let abs_outer = format!("{root}/outer/");
    let abs_served = format!("{root}/outer/served/");
    // absolute spellings with one and two leading separators (a server that strips only one is fooled by the second)
    let abs_outer2 = format!("/{root}/outer/");
    let abs_evil2 = format!("\\{root}/outer/served-evil/");
    let abs_evil = format!("{root}/outer/served-evil/");
    let prefixes: [&str; 12] = ["", "/", "\\", "//", "../", "..\\", "C:\\", &abs_outer, &abs_served, &abs_outer2, &abs_evil2, &abs_evil];
    if d.chance("name.plausible", 1, 3) {
        // names of files that exist (or may be created), spelled in various ways
        let base = d.pick("name.base", &["pub.txt", "sub/inner.txt", "x", "new.txt", "sub/new2.txt", "old.txt", "sub"]);
        let pre = d.pick("name.base.prefix", &["", "/", "\\", "//", "./", ".\\", "/./"]);
        let sep = d.pick("name.base.sep", &["/", "\\", "//", "/./"]);
        return format!("{pre}{}", base.replace('/', sep));
    }
    let prefix = d.pick("name.prefix", &prefixes);
    let mut s = String::new();
    let n = 1 + d.range("name.segments", 5);
    for i in 0..n {
        if i > 0 {
            s.push_str(d.pick("name.sep", &seps));
        }
        s.push_str(d.pick("name.seg", &segs));
    }
    // mutations apply to the part after the prefix (the prefix may hold the sandbox's absolute
    // path, which must stay recognisable so that traces do not depend on the process id)
    match d.range("name.mutation", 10) {
        1 => s.push('/'),
        2 => s = s.replace("..", "%2e%2e"),
        3 => s = s.replace("..", "...."),
        4 => s.push_str("/.."),
        5 => s = format!("sub/{s}"),
        6 => s = s.to_uppercase(),
        _ => {}
    }
    let mut s = format!("{prefix}{s}");
    if s.len() > 400 {
        s.truncate(400);
    }
    s
}

/// Enumerated names for C03: every name made of a prefix, one to three segments of a path-segment
/// alphabet and separators, as RRQ and as WRQ. Index space: see `confine_space`.
const E_PREFIX: [&str; 8] = ["", "/", "\\", "//", "../", "..\\", "$OUTER/", "/$OUTER/served-evil/"];
const E_SEG: [&str; 12] = ["..", ".", "", "a", "sub", "x", "secret.txt", "served-evil", "pub.txt", "...", "..x", "recv"];
const E_SEP: [&str; 4] = ["/", "\\", "//", "/./"];
const E_SEG3: [&str; 6] = ["..", ".", "", "sub", "x", "served"];
pub fn confine_space() -> u64 {
    let one = (E_PREFIX.len() * E_SEG.len()) as u64;
    let two = (E_PREFIX.len() * E_SEG.len() * E_SEP.len() * E_SEG.len()) as u64;
    let three = (E_PREFIX.len() * E_SEG3.len() * 2 * E_SEG3.len() * 2 * E_SEG3.len()) as u64;
    2 * (one + two + three)
}
fn enumerated_name(k: u64, root: &str) -> (String, bool) {
    fn take(k: &mut u64, n: usize) -> usize {
        let v = (*k % n as u64) as usize;
        *k /= n as u64;
        v
    }
    let mut k = k % confine_space();
    let write = k % 2 == 1;
    k /= 2;
    let one = (E_PREFIX.len() * E_SEG.len()) as u64;
    let two = (E_PREFIX.len() * E_SEG.len() * E_SEP.len() * E_SEG.len()) as u64;
    let name = if k < one {
        let (p, a) = (take(&mut k, E_PREFIX.len()), take(&mut k, E_SEG.len()));
        format!("{}{}", E_PREFIX[p], E_SEG[a])
    } else if k < one + two {
        k -= one;
        let (p, a, s1, b) = (take(&mut k, E_PREFIX.len()), take(&mut k, E_SEG.len()), take(&mut k, E_SEP.len()), take(&mut k, E_SEG.len()));
        format!("{}{}{}{}", E_PREFIX[p], E_SEG[a], E_SEP[s1], E_SEG[b])
    } else {
        k -= one + two;
        let (p, a, s1, b, s2, c) = (take(&mut k, E_PREFIX.len()), take(&mut k, E_SEG3.len()), take(&mut k, 2), take(&mut k, E_SEG3.len()), take(&mut k, 2), take(&mut k, E_SEG3.len()));
        format!("{}{}{}{}{}{}", E_PREFIX[p], E_SEG3[a], E_SEP[s1], E_SEG3[b], E_SEP[s2], E_SEG3[c])
    };
    (name.replace("$OUTER", &format!("{root}/outer")), write)
}

pub fn confine(_tier: Tier, w: &Arc<World>) -> Scn {
    let d = Draw { w };
    // every fourth run of each build takes its names from the enumeration (four names per run)
    let stratum: Option<u64> = if matches!(d.enumerate("strat.slot", 4), 0 | 3) { Some(d.enumerate("strat.index", 1 << 30) as u64) } else { None };
    let sandbox = Sandbox::new();
    let root = sandbox.root.to_string_lossy().into_owned();
    w.lock().sb_root = root.clone();
    sandbox.write("outer/secret.txt", &content(900, 101));
    sandbox.write("outer/passwd", &content(64, 102));
    sandbox.write("outer/served/pub.txt", &content(1500, 103));
    sandbox.write("outer/served/sub/inner.txt", &content(600, 104));
    sandbox.write("outer/served/x", &content(10, 105));
    sandbox.write("outer/served-evil/x", &content(777, 106));
    sandbox.write("outer/recv/old.txt", &content(300, 107));
    sandbox.dir("outer/recv/sub");
    sandbox.write("outer/etc/passwd", &content(128, 108));
    let served = sandbox.root.join("outer/served");
    let distinct = d.chance("swarm.distinct_dirs", 1, 2);
    // the receive directory may hold nothing at all (nested below an otherwise empty directory)
    let recvd = if distinct && d.chance("swarm.empty_recv_dir", 1, 3) { sandbox.dir("outer/incoming/spool") } else { sandbox.root.join("outer/recv") };
    let mut srv = base_cfg(&d, &served);
    // which of -d / -sd / -rd name the two directories: a directory not named falls back to -d
    let layout = if distinct { d.range("swarm.dir_layout", 3) } else { 0 };
    if distinct {
        match layout {
            0 => {
                srv.send_dir = Some(served.clone());
                srv.recv_dir = Some(recvd.clone());
            }
            1 => {
                srv.dir = recvd.clone();
                srv.send_dir = Some(served.clone());
            }
            _ => srv.recv_dir = Some(recvd.clone()),
        }
    }
    // how the directories are spelled on the command line: absolute, relative to the working
    // directory, or made of parent steps from a working directory below the served one
    let spelling = d.weighted("swarm.dir_spelling", &[3, 1, 1]);
    if spelling == 2 {
        std::env::set_current_dir(served.join("sub")).expect("chdir into the sandbox");
    }
    if spelling == 1 {
        // relative directories are relative to the working directory, not to -d: below whatever -d names
        // sits a decoy tree with the same relative layout
        let base = crate::common::process_base();
        let anchor = if distinct && layout == 1 { recvd.clone() } else { served.clone() };
        for (dir, file, salt) in [(&served, "pub.txt", 141u64), (&recvd, "old.txt", 142)] {
            if let Ok(rel) = dir.strip_prefix(&base) {
                let decoy = anchor.join(rel);
                let _ = std::fs::create_dir_all(&decoy);
                let _ = std::fs::write(decoy.join(file), content(333, salt));
            }
        }
    }
    let spell = |p: &std::path::Path| -> std::path::PathBuf {
        match spelling {
            1 => p.strip_prefix(crate::common::process_base()).map(|x| x.to_path_buf()).unwrap_or_else(|_| p.to_path_buf()),
            2 => std::path::PathBuf::from(if p == served.as_path() { "../".to_string() } else { format!("../../{}/", p.strip_prefix(sandbox.root.join("outer")).unwrap().display()) }),
            _ => p.to_path_buf(),
        }
    };
    srv.dir = spell(&srv.dir);
    srv.send_dir = srv.send_dir.as_ref().map(|p| spell(p));
    srv.recv_dir = srv.recv_dir.as_ref().map(|p| spell(p));
    srv.overwrite = d.chance("swarm.overwrite", 1, 2);
    let (send, recv) = if distinct { (served.clone(), recvd.clone()) } else { (served.clone(), served.clone()) };
    let n = if stratum.is_some() { 4 } else { 2 + d.range("swarm.requests", 6) as usize };
    let mut reqs = vec![];
    let mut desc = format!("confine {}{} distinct_dirs={distinct} layout={} dir_spelling={} names=[", if stratum.is_some() { "STRATUM " } else { "" }, srv.describe(), ["-d,-sd,-rd", "-d(recv),-sd", "-d(send),-rd"][layout as usize], ["absolute", "relative", "parent-steps"][spelling]);
    for i in 0..n {
        let (name, write) = match stratum {
            Some(ix) => enumerated_name(ix * 4 + i as u64, &root),
            None => {
                let write = d.chance("swarm.req.write", 1, 2);
                (draw_name(&d, &root), write)
            }
        };
        let data = Arc::new(content(400 + 10 * i, 60 + i as u64));
        let mut xc = XferCfg::new(srv.addr(), &name);
        xc.resend_request = false;
        xc.retries = 2;
        if d.chance("swarm.req.options", 1, 3) {
            // options, honourable or not, must not change whether an escaping name is refused with an ERROR
            let (k, v) = d.pick("swarm.req.option", &[("blksize", "1024"), ("timeout", "0"), ("windowsize", "0"), ("blksize", "7"), ("blksize", "65465"), ("windowsize", "4"), ("tsize", "0")]);
            xc.opts.push((k.to_string(), v.to_string()));
        }
        // some transfers are aborted by the client: a read request must leave the disk alone then, too
        let abort = d.chance("swarm.req.abort", 1, 4);
        if abort {
            let step = 1 + d.range("swarm.req.abort_step", 2);
            xc.script.push((step, if d.chance("swarm.req.abort_silent", 1, 2) { Adv::Silent } else { Adv::Error(d.range("swarm.req.abort_code", 8) as u16, true) }));
        }
        let (peer, client) = if write { w.add_peer(Box::new(Writer::new(xc, data.to_vec())), srv.v6, 0) } else { w.add_peer(Box::new(Reader::new(xc)), srv.v6, 0) };
        desc.push_str(&format!("{}{:?}{} ", if write { "W" } else { "R" }, name.replace(&root, "$SB"), if abort { "(aborted)" } else { "" }));
        reqs.push(ReqInfo { client, peer, write, name, content: data, tolerate_stale_data: false });
        w.start_peer_at(peer, 10 * MS + i as Ns * GAP);
    }
    desc.push(']');
    w.add_monitor(Box::new(ReqMon::new("C03", Mode::Confine, reqs, sandbox.root.clone(), send, recv, srv.addr(), false, srv.overwrite)));
    boot_server(w, &srv).expect("server config");
    Scn { sandbox, desc, step_cap: 400_000, time_cap: 100_000_000 * SEC, faultfree: true }
}

// ------------------------------------------------------------------------------------------
// C09
// ------------------------------------------------------------------------------------------

fn case_variant(d: &Draw, name: &str) -> String {
    match d.range("opt.case", 4) {
        1 => name.to_uppercase(),
        2 => {
            let mut c = name.chars();
            match c.next() {
                Some(f) => f.to_uppercase().collect::<String>() + c.as_str(),
                None => String::new(),
            }
        }
        3 => name.chars().enumerate().map(|(i, ch)| if i % 2 == 1 { ch.to_ascii_uppercase() } else { ch }).collect(),
        _ => name.to_string(),
    }
}

pub fn options(_tier: Tier, w: &Arc<World>) -> Scn {
    let d = Draw { w };
    let sandbox = Sandbox::new();
    w.lock().sb_root = sandbox.root.to_string_lossy().into_owned();
    let dir = sandbox.dir("srv");
    let mut srv = base_cfg(&d, &dir);
    let write = d.chance("swarm.kind.upload", 1, 2);
    if d.chance("swarm.dup", 1, 8) {
        srv.dup = Some("1".into());
    }
    let dupn: u64 = if srv.dup.is_some() { 1 } else { 0 };
    let len = d.pick("swarm.len", &[6000usize, 0, 511, 512, 513, 2048, 40_000, 200_000]);
    let blk = ["512", "8", "7", "9", "0", "1", "1428", "65464", "65465", "65463", "1024", "100000", "4294967296", "1099511627776", "18446744073709551615", "18446744073709551616", "+16", "abc", "", "0512", "-1"];
    let tmo = ["5", "1", "0", "2", "255", "256", "3", "abc", "1000"];
    let win = ["1", "2", "4", "0", "65535", "65536", "16", "8", "3", "100000", "-1"];
    let tsz = ["0", "12345", "6000", "9223372036854775808"];
    let mut picked: Vec<(String, String)> = vec![];
    if d.chance("opt.blksize", 1, 2) {
        picked.push(("blksize".into(), d.pick("opt.blksize.v", &blk).to_string()));
    }
    if d.chance("opt.timeout", 1, 2) {
        picked.push(("timeout".into(), d.pick("opt.timeout.v", &tmo).to_string()));
    }
    if d.chance("opt.windowsize", 1, 2) {
        picked.push(("windowsize".into(), d.pick("opt.windowsize.v", &win).to_string()));
    }
    if d.chance("opt.tsize", 1, 2) {
        picked.push(("tsize".into(), d.pick("opt.tsize.v", &tsz).to_string()));
    }
    // order
    let mut opts: Vec<(String, String)> = vec![];
    while !picked.is_empty() {
        let k = d.range("opt.order", picked.len() as u32) as usize;
        let (n, v) = picked.remove(k);
        if d.chance("opt.unknown", 1, 4) {
            opts.push((d.pick("opt.unknown.name", &["foo", "multicast", "blksize2", "x"]).to_string(), d.pick("opt.unknown.val", &["1", "bar", ""]).to_string()));
        }
        opts.push((case_variant(&d, &n), v));
    }
    if d.chance("opt.unknown.tail", 1, 5) {
        opts.push(("rollover".into(), "0".into()));
    }
    // a long run of unknown options in front: they are ignored, however many there are
    if !opts.is_empty() && d.chance("opt.many_unknown", 1, 10) {
        let k = 8 + d.range("opt.many_unknown.count", 13) as usize;
        for j in 0..k {
            opts.insert(0, (format!("x{j}"), "1".to_string()));
        }
    }
    // rarely a client names an option twice with different values; whatever is acknowledged is what is used
    if d.chance("opt.repeat", 1, 8) {
        let cands: Vec<usize> = opts.iter().enumerate().filter(|(_, (k, v))| ["blksize", "timeout", "windowsize"].contains(&k.to_ascii_lowercase().as_str()) && numeric(v).map_or(false, |n| honourable(&k.to_ascii_lowercase(), n))).map(|(i, _)| i).collect();
        if !cands.is_empty() {
            let i = cands[d.range("opt.repeat.which", cands.len() as u32) as usize];
            let name = opts[i].0.to_ascii_lowercase();
            let other = match name.as_str() {
                "blksize" => d.pick("opt.repeat.blksize", &["1024", "64", "2048", "8", "600"]),
                "timeout" => d.pick("opt.repeat.timeout", &["2", "7", "1", "4"]),
                _ => d.pick("opt.repeat.windowsize", &["4", "1", "2", "7", "16"]),
            };
            let at = if d.chance("opt.repeat.before", 1, 2) { i } else { opts.len() };
            opts.insert(at, (case_variant(&d, &name), other.to_string()));
        }
    }
    // rarely: windows beyond 1 MiB on files beyond 1 MiB, options in either order
    let mut big_len = None;
    if d.chance("swarm.big_window", 1, 150) {
        let (b, wz) = d.pick("swarm.big.shape", &[(16384usize, 80u64), (60000, 20), (8192, 200), (1428, 900)]);
        opts.retain(|(k, _)| !["blksize", "windowsize"].contains(&k.to_ascii_lowercase().as_str()));
        if d.chance("swarm.big.windowsize_first", 1, 2) {
            opts.insert(0, ("windowsize".into(), wz.to_string()));
            opts.push(("blksize".into(), b.to_string()));
        } else {
            opts.insert(0, ("blksize".into(), b.to_string()));
            opts.push(("windowsize".into(), wz.to_string()));
        }
        big_len = Some(d.pick("swarm.big.len", &[1_600_000usize, (1 << 20) + 4321, 2_200_000]));
    }
    // what a correct server will use if it acknowledges everything that is honourable
    let rec: Vec<(String, String)> = opts.iter().filter(|(k, _)| ["blksize", "timeout", "tsize", "windowsize"].contains(&k.to_ascii_lowercase().as_str())).map(|(k, v)| (k.to_ascii_lowercase(), v.clone())).collect();
    let all_ok = rec.iter().all(|(k, v)| numeric(v).map_or(false, |n| honourable(k, n) && n <= u64::MAX as u128));
    let expect_oack = !rec.is_empty() && all_ok;
    // keep the number of blocks moderate
    let eff_b: usize = if expect_oack { rec.iter().rev().find(|(k, _)| k == "blksize").and_then(|(_, v)| numeric(v)).map(|x| x as usize).unwrap_or(512) } else { 512 };
    let len = match big_len {
        Some(l) if expect_oack => l,
        _ => len.min(eff_b * 300),
    };
    let mode = if d.chance("swarm.mode.varied", 1, 5) { crate::common::draw_mode(d.range("swarm.mode", 12)) } else { "octet" };
    let data = Arc::new(if !mode.eq_ignore_ascii_case("octet") && d.chance("swarm.content.texty", 1, 2) { crate::common::content_texty(len, 7, eff_b) } else { content(len, 7) });
    let tmo_s: u64 = if expect_oack { rec.iter().rev().find(|(k, _)| k == "timeout").and_then(|(_, v)| numeric(v)).map(|x| x as u64).unwrap_or(5) } else { 5 };
    let mut fname = "data.bin";
    let path = dir.join("data.bin");
    if !write {
        std::fs::write(&path, &*data).unwrap();
        if d.chance("swarm.request_via_symlink", 1, 8) {
            // the served name is a symbolic link inside the directory: tsize is the size of what is sent
            let _ = std::os::unix::fs::symlink("data.bin", dir.join("link.bin"));
            fname = "link.bin";
        }
    }
    let mut xc = XferCfg::new(srv.addr(), fname);
    xc.opts = opts.clone();
    xc.mode = mode.to_string();
    xc.timeout_ns = tmo_s.min(100_000) * SEC * 3 / 2;
    xc.resend_request = false;
    xc.retries = 3;
    // a reader may acknowledge inside a window (RFC 7440 allows an early ACK): the window that follows
    // still holds exactly the acknowledged number of blocks
    let eff_w: u64 = if expect_oack { rec.iter().rev().find(|(k, _)| k == "windowsize").and_then(|(_, v)| numeric(v)).map(|x| x as u64).unwrap_or(1) } else { 1 };
    if !write && eff_w > 1 && eff_w <= 16 && d.chance("swarm.reader.per_block_ack", 1, 4) {
        xc.per_block_ack = true;
    }
    // sometimes the client dies right after the handshake so that the retransmission interval shows
    let silent = d.chance("swarm.silent_after_handshake", 1, 3);
    if silent {
        let step = if write {
            if d.chance("swarm.silent.later", 1, 2) {
                2
            } else {
                1
            }
        } else if expect_oack {
            // either the acknowledgement of the OACK never comes, or the one of the first block
            if d.chance("swarm.silent.at_oack", 1, 2) {
                1
            } else {
                2
            }
        } else {
            1
        };
        xc.script.push((step, Adv::Silent));
    }
    let desc = format!("options {} {} mode={mode} len={len} opts={opts:?} expect_oack={expect_oack} silent={silent} per_block_ack={}", srv.describe(), if write { "WRQ" } else { "RRQ" }, xc.per_block_ack);
    let kind = if write { Kind::Upload } else { Kind::Download };
    let (peer, client) = if write { w.add_peer(Box::new(Writer::new(xc, data.to_vec())), srv.v6, 0) } else { w.add_peer(Box::new(Reader::new(xc)), srv.v6, 0) };
    w.add_monitor(Box::new(OptMon::new(client, write, opts, len as u64)));
    let mut specs = vec![XferSpec { client, peer, kind, content: data.clone(), path, conformant: !silent, dally: true, timeout_ratio: 2 }];
    let mut bystander = None;
    if d.chance("swarm.bystander", 1, 4) {
        // "the transfer uses precisely the acknowledged block length" also while another client talks to the server
        let (bp, spec) = crate::scen::add_bystander(&d, w, &srv, &dir);
        specs.push(spec);
        bystander = Some(bp);
    }
    w.add_monitor(Box::new(XferMon::new("C09", Rules { c09: true, c02: true, ..Default::default() }, specs, dupn)));
    boot_server(w, &srv).expect("server config");
    w.start_peer_at(peer, 10 * MS);
    if let Some((bp, at)) = bystander {
        w.start_peer_at(bp, at);
    }
    Scn { sandbox, desc, step_cap: 600_000, time_cap: 100_000_000 * SEC, faultfree: true }
}

// ------------------------------------------------------------------------------------------
// C05
// ------------------------------------------------------------------------------------------

fn hostile_datagram(d: &Draw) -> Vec<u8> {
    let vals = ["0", "1", "7", "8", "65464", "65465", "65536", "2147483648", "4294967296", "1099511627776", "9223372036854775808", "18446744073709551615", "18446744073709551616", "-1", "+5", "1e3", "", "abc", "99999999999999999999999999"];
    let names = ["blksize", "timeout", "tsize", "windowsize", "BLKSIZE", "WindowSize", "blksize\u{0}", "unknown"];
    let long_a = "m".repeat(480);
    let long_euro: Vec<String> = (0..4).map(|k| format!("{}{}", "a".repeat(k), "\u{20ac}".repeat(160))).collect();
    let files = ["probe.bin", "pipe", "", "missing", "../x", "a/b/c", "probe.bin\u{0}x", "..", "docs/..", "a/b/../..", ".", "/", "\\", "probe.bin/..", long_a.as_str(), long_euro[0].as_str(), long_euro[1].as_str(), long_euro[2].as_str(), long_euro[3].as_str()];
    let mut base: Vec<u8> = match d.range("hostile.kind", 10) {
        0 | 1 | 2 | 3 => {
            // request with boundary option values
            let n = 1 + d.range("hostile.nopts", 4);
            let mut opts = vec![];
            for _ in 0..n {
                opts.push((d.pick("hostile.opt.name", &names).to_string(), d.pick("hostile.opt.val", &vals).to_string()));
            }
            let file = d.pick("hostile.file", &files).to_string();
            let mode = d.pick("hostile.mode", &["octet", "netascii", "", "mail"]).to_string();
            if d.chance("hostile.wrq", 1, 3) {
                rfc::encode(&Pkt::Wrq { file, mode, opts })
            } else {
                rfc::encode(&Pkt::Rrq { file, mode, opts })
            }
        }
        4 => rfc::encode(&Pkt::Data { n: d.range("hostile.n", 65536) as u16, payload: vec![0xAB; d.pick("hostile.len", &[0usize, 1, 511, 512, 513, 2000, 65503])] }),
        5 => rfc::encode(&Pkt::Ack(d.range("hostile.n", 65536) as u16)),
        6 => rfc::encode(&Pkt::Error { code: d.pick("hostile.code", &[0u16, 1, 7, 8, 255, 65535]), msg: "x".repeat(d.range("hostile.msglen", 40) as usize) }),
        7 => rfc::encode(&Pkt::Oack(vec![(d.pick("hostile.opt.name", &names).to_string(), d.pick("hostile.opt.val", &vals).to_string())])),
        8 => {
            let op = d.pick("hostile.opcode", &[0u16, 7, 9, 255, 256, 0x0100, 0xffff]);
            let mut v = vec![(op >> 8) as u8, op as u8];
            v.extend(std::iter::repeat(0x41).take(d.range("hostile.tail", 20) as usize));
            v
        }
        _ => {
            let n = d.pick("hostile.rawlen", &[0usize, 1, 2, 3, 4, 5, 100, 516, 517, 2000, 65507]);
            let b = d.range("hostile.rawbyte", 256) as u8;
            (0..n).map(|i| b.wrapping_add((i * 31) as u8)).collect()
        }
    };
    match d.range("hostile.mutation", 8) {
        1 => {
            let k = d.range("hostile.truncate", base.len() as u32 + 1) as usize;
            base.truncate(k);
        }
        2 => {
            if !base.is_empty() {
                let k = d.range("hostile.flip.pos", base.len().min(64) as u32) as usize;
                base[k] ^= 1 << d.range("hostile.flip.bit", 8);
            }
        }
        3 => {
            // drop the last NUL
            if base.last() == Some(&0) {
                base.pop();
            }
        }
        4 => base.extend_from_slice(&[0, 0, 0]),
        _ => {}
    }
    base
}

pub fn hostile(_tier: Tier, w: &Arc<World>) -> Scn {
    let d = Draw { w };
    let sandbox = Sandbox::new();
    w.lock().sb_root = sandbox.root.to_string_lossy().into_owned();
    let dir = sandbox.dir("srv");
    let mut srv = base_cfg(&d, &dir);
    srv.read_only = d.chance("swarm.read_only", 1, 2);
    let probe_data = Arc::new(content(1300, 5));
    std::fs::write(dir.join("probe.bin"), &*probe_data).unwrap();
    let big = Arc::new(content(9000, 6));
    std::fs::write(dir.join("big.bin"), &*big).unwrap();
    // a named pipe among the served files: whoever asks for it may wait forever, nobody else may
    crate::world::make_fifo(&dir.join("pipe"));
    if d.chance("swarm.crowd", 1, 400) {
        // "from any number of sources": several hundred endpoints are served one after the other, then a probe
        let n = d.pick("swarm.crowd.size", &[300usize, 260, 520]);
        let mut probes = vec![];
        for i in 0..n {
            let mut xc = XferCfg::new(srv.addr(), "probe.bin");
            xc.resend_request = false;
            let (p, _) = w.add_peer(Box::new(Reader::new(xc)), srv.v6, 0);
            w.start_peer_at(p, 10 * MS + i as Ns * 20 * MS);
            if i % 37 == 0 {
                probes.push((p, probe_data.clone()));
            }
        }
        let xc = XferCfg::new(srv.addr(), "probe.bin");
        let (p, _) = w.add_peer(Box::new(Reader::new(xc)), srv.v6, 0);
        w.start_peer_at(p, 10 * MS + n as Ns * 20 * MS + 100 * SEC);
        probes.push((p, probe_data.clone()));
        let desc = format!("crowd {} endpoints={n} then a probe", srv.describe());
        w.add_monitor(Box::new(LiveMon::new(probes)));
        boot_server(w, &srv).expect("server config");
        return Scn { sandbox, desc, step_cap: 2_000_000, time_cap: 100_000_000 * SEC, faultfree: true };
    }
    let nsrc = 1 + d.range("swarm.sources", 3) as usize;
    // now and then a long run of datagrams (hundreds in a row, nothing valid in between)
    let flood = d.chance("swarm.hostile.flood", 1, 60);
    let ndg = if flood { 120 + d.range("swarm.hostile.flood.count", 200) as usize } else { 1 + d.range("swarm.hostile.count", 12) as usize };
    let mut scripts: Vec<Vec<(Ns, Target, Vec<u8>)>> = vec![vec![]; nsrc];
    let mut sample = vec![];
    for i in 0..ndg {
        let bytes = if flood {
            // nothing in a flood decodes: unknown opcodes, runts, requests without terminators, broken UTF-8
            match d.range("hostile.flood.kind", 6) {
                0 => vec![0, 9, 1, 2, 3],
                1 => vec![0xff, 0xff],
                2 => vec![7],
                3 => vec![],
                4 => vec![0, 1, b'a', b'b', b'c'],
                _ => vec![0, 1, 0xc3, 0x28, 0, b'o', b'c', b't', b'e', b't', 0],
            }
        } else {
            hostile_datagram(&d)
        };
        if sample.len() < 3 {
            sample.push(rfc::summary(&bytes));
        }
        let src = d.range("hostile.source", nsrc as u32) as usize;
        let at = 10 * MS + i as Ns * if flood { MS } else { d.pick("hostile.spacing", &[SEC, MS, 100 * SEC, 10 * SEC]) };
        scripts[src].push((at, Target::Addr(srv.addr()), bytes));
    }
    let horizon = 10 * MS + ndg as Ns * 100 * SEC;
    let mut hostile_peers = vec![];
    for s in scripts {
        let (p, _) = w.add_peer(Box::new(Scripted::new("hostile-datagram", s)), srv.v6, 0);
        w.start_peer(p);
        hostile_peers.push(p);
    }
    // a legitimate transfer in flight while the hostile datagrams arrive (its state could be poisoned)
    let mut probes = vec![];
    if d.chance("swarm.concurrent_transfer", 1, 2) {
        let mut xc = XferCfg::new(srv.addr(), "big.bin");
        xc.opts = vec![("blksize".into(), d.pick("swarm.concurrent.blksize", &["1024", "512", "8192"]).to_string())];
        let (p, _) = w.add_peer(Box::new(Reader::new(xc)), srv.v6, 0);
        w.start_peer_at(p, 20 * MS);
        probes.push((p, big.clone()));
    }
    let mut upload_victim = None;
    if !srv.read_only && d.chance("swarm.concurrent_upload", 1, 3) {
        // a legitimate upload with a large block size in flight (single-port: it shares the listener's buffer)
        let up = Arc::new(content(20_000, 8));
        let mut xc = XferCfg::new(srv.addr(), "victim-up.bin");
        xc.opts = vec![("blksize".into(), d.pick("swarm.concurrent.up_blksize", &["1024", "4096", "1428"]).to_string())];
        xc.resend_request = false;
        xc.think_ns = 0;
        let (p, _) = w.add_peer(Box::new(Writer::new(xc, up.to_vec())), srv.v6, 0);
        w.start_peer_at(p, 15 * MS);
        upload_victim = Some((dir.join("victim-up.bin"), up));
    }
    // canonical probes after prefixes of the hostile sequence and after all of it
    let nprobe = 1 + d.range("swarm.probes", 2) as usize;
    for k in 0..nprobe {
        let xc = XferCfg::new(srv.addr(), "probe.bin");
        // the last probe may come from a socket that misbehaved before: its valid request counts like any other
        let (p, _) = if k + 1 == nprobe && d.chance("probe.from_hostile_source", 1, 2) {
            w.add_peer_on(Box::new(Reader::new(xc)), hostile_peers[d.range("probe.hostile_source", hostile_peers.len() as u32) as usize])
        } else {
            w.add_peer(Box::new(Reader::new(xc)), srv.v6, 0)
        };
        let at = if k + 1 == nprobe { horizon + 4000 * SEC } else { 10 * MS + d.range("probe.at", ndg as u32 + 1) as Ns * SEC + 500 * MS };
        w.start_peer_at(p, at);
        probes.push((p, probe_data.clone()));
    }
    let desc = format!("hostile {} sources={nsrc} datagrams={ndg} probes={} e.g. {:?}", srv.describe(), probes.len(), sample);
    let mut lm = LiveMon::new(probes);
    lm.upload_victim = upload_victim;
    w.add_monitor(Box::new(lm));
    boot_server(w, &srv).expect("server config");
    Scn { sandbox, desc, step_cap: 400_000, time_cap: 100_000_000 * SEC, faultfree: false }
}
