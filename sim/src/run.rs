//! One simulated run: build the scenario, drive it, collect the outcome.
use crate::choice::Choices;
use crate::scen::{self, Tier};
use crate::world::{EndReason, FaultCfg, Ns, Stats, Violation, World, BOOT_NS};
use std::collections::BTreeMap;

pub struct Outcome {
    pub violation: Option<Violation>,
    pub end: EndReason,
    pub stats: Stats,
    pub probes: BTreeMap<&'static str, u64>,
    pub inconclusive: bool,
    pub faultfree: bool,
    pub choices: Vec<(&'static str, u32)>,
    pub trace: Option<Vec<String>>,
    pub sim_ns: Ns,
    pub desc: String,
    pub harness_error: Option<String>,
    pub states: Vec<u64>,
}

pub const PROPS: [&str; 14] = ["C01", "C02", "C03", "C04", "C05", "C06", "C07", "C08", "C09", "C12", "C13", "C14", "C15", "C16"];

pub fn static_prop(p: &str) -> Option<&'static str> {
    PROPS.iter().copied().find(|x| *x == p)
}

pub fn implemented() -> Vec<&'static str> {
    vec!["C01", "C02", "C03", "C04", "C05", "C06", "C07", "C08", "C09", "C12", "C13", "C14", "C15", "C16"]
}

/// Builds the scenario of a run without executing it: its description and the swarm choices drawn
/// so far (used to document runs that kill the process).
pub fn describe(prop: &'static str, tier: Tier, choices: Choices) -> (String, Vec<(&'static str, u32)>) {
    let world = World::new(choices, FaultCfg::default(), false);
    let scn = build(prop, tier, &world);
    world.finish(EndReason::Quiescent);
    let g = world.lock();
    (scn.desc.clone(), g.choices.log.clone())
}

fn build(prop: &'static str, tier: Tier, world: &std::sync::Arc<World>) -> scen::Scn {
    let world = world.clone();
    match prop {
        "C01" | "C02" | "C04" | "C07" | "C08" => scen::xfer(prop, tier, &world),
        "C03" => crate::scen_srv::confine(tier, &world),
        "C05" => crate::scen_srv::hostile(tier, &world),
        "C06" => crate::scen_srv::policy(tier, &world),
        "C09" => crate::scen_srv::options(tier, &world),
        "C12" => crate::scen_more::isolation(tier, &world),
        "C13" => crate::scen_more::cleanup(tier, &world),
        "C14" => crate::scen_more::clientserver(tier, &world),
        "C15" => crate::scen_more::wrap(tier, &world),
        "C16" => crate::scen_more::dupmode(tier, &world),
        _ => panic!("no scenario for {prop}"),
    }
}

pub fn execute(prop: &'static str, tier: Tier, choices: Choices, record_trace: bool) -> Outcome {
    let world = World::new(choices, FaultCfg::default(), record_trace);
    let scn = build(prop, tier, &world);
    let end = world.run(scn.step_cap, scn.time_cap);
    world.finish(end);
    let mut g = world.lock();
    let mut probes = BTreeMap::new();
    let mut inconclusive = false;
    let mut states = Vec::new();
    for m in g.monitors.iter() {
        m.probes(&mut probes);
        inconclusive |= m.inconclusive();
        if let Some(x) = m.as_any().downcast_ref::<crate::xfer_mon::XferMon>() {
            states.extend(x.states.iter().copied());
        }
    }
    let mut harness_error = g.harness_error.clone();
    if let Some(m) = &g.choices.mismatch {
        harness_error = Some(format!("replay diverged: {m}"));
    }
    let out = Outcome {
        violation: g.violation.clone(),
        end,
        stats: g.stats.clone(),
        probes,
        inconclusive,
        faultfree: scn.faultfree,
        choices: g.choices.log.clone(),
        trace: g.trace.take(),
        sim_ns: g.now - BOOT_NS,
        desc: scn.desc.clone(),
        harness_error,
        states,
    };
    // break reference cycles (monitors / peers hold nothing of the world, but be tidy)
    g.monitors.clear();
    g.peers.clear();
    drop(g);
    drop(scn);
    out
}
