//! Scenario generators. Everything that varies is drawn from the world's choice stream.
use crate::common::{boot_server, content, content_texty, content_with_zero_runs, draw_mode, Sandbox, ServerCfg};
use crate::peers::{Adv, Reader, Writer, XferCfg};
use crate::world::{FaultCfg, Ns, World, MS, SEC};
use crate::xfer_mon::{Kind, Rules, XferMon, XferSpec};
use std::sync::Arc;

#[derive(Clone, Copy, PartialEq, Eq, Debug)]
pub enum Tier {
    Quick,
    Thorough,
}

pub struct Scn {
    pub sandbox: Sandbox,
    pub desc: String,
    pub step_cap: u64,
    pub time_cap: Ns,
    /// this run has no fault source configured (fault-free stratum)
    pub faultfree: bool,
}

pub struct Draw<'a> {
    pub w: &'a Arc<World>,
}

impl Draw<'_> {
    pub fn range(&self, site: &'static str, n: u32) -> u32 {
        self.w.lock().choices.range(site, n)
    }
    pub fn pick<T: Copy>(&self, site: &'static str, items: &[T]) -> T {
        items[self.range(site, items.len() as u32) as usize]
    }
    /// true with probability num/den; false is the default (index 0)
    pub fn chance(&self, site: &'static str, num: u32, den: u32) -> bool {
        self.w.lock().choices.choose(site, &[den - num, num]) == 1
    }
    pub fn weighted(&self, site: &'static str, w: &[u32]) -> usize {
        self.w.lock().choices.choose(site, w)
    }
    pub fn enumerate(&self, site: &'static str, n: u32) -> u32 {
        self.w.lock().choices.enumerate(site, n)
    }
}

/// Half of the runs vary the order in which runnable threads proceed (listener vs workers) by tiny
/// delays at scheduling points; magnitudes stay far below every timeout and timing tolerance.
pub fn light_sched(d: &Draw, fc: &mut FaultCfg) {
    if d.chance("swarm.sched_variety", 1, 2) {
        fc.sched_w = [8, 1, 1, 1, 1];
        fc.sched_table = [0, crate::world::US, 2 * crate::world::US, 5 * crate::world::US, 10 * crate::world::US];
    }
}

pub const BLKSIZES: [usize; 11] = [512, 8, 9, 16, 511, 513, 1024, 1428, 8192, 65463, 65464];
pub const WINDOWS: [u64; 10] = [1, 2, 3, 4, 7, 8, 16, 64, 65534, 65535];
pub const TIMEOUTS: [u64; 4] = [5, 1, 2, 255];

/// Options as a model client requests them, and what a correct server must then use.
#[derive(Clone, Debug)]
pub struct OptChoice {
    pub opts: Vec<(String, String)>,
    pub b: usize,
    pub w: u64,
    pub tmo_s: u64,
}

/// Like `draw_options`, but now and then asks for a blksize just outside 8..=65464: a correct server
/// does not acknowledge it (the run is then a non-transfer); one that does must still obey its OACK.
pub fn draw_options_odd(d: &Draw, allow_big_w: bool) -> OptChoice {
    let mut o = draw_options(d, allow_big_w, None);
    if d.chance("swarm.blksize.out_of_range", 1, 16) {
        let b = d.pick("swarm.blksize.odd", &[65465usize, 65500, 65503, 7, 100000]);
        o.opts.retain(|(k, _)| k != "blksize");
        o.opts.insert(0, ("blksize".into(), b.to_string()));
        o.b = b.clamp(8, 65464);
    }
    o
}

pub fn draw_options(d: &Draw, allow_big_w: bool, len_hint: Option<usize>) -> OptChoice {
    let mut o = OptChoice { opts: vec![], b: 512, w: 1, tmo_s: 5 };
    if !d.chance("swarm.use_options", 4, 5) {
        return o;
    }
    if d.chance("swarm.opt.blksize", 3, 4) {
        let b = if d.chance("swarm.blksize.random", 1, 4) { 8 + d.range("swarm.blksize.value", 2041) as usize } else { d.pick("swarm.blksize.table", &BLKSIZES) };
        o.b = b;
        o.opts.push(("blksize".into(), b.to_string()));
    }
    if d.chance("swarm.opt.windowsize", 3, 4) {
        let w = if d.chance("swarm.windowsize.random", 1, 3) {
            1 + d.range("swarm.windowsize.value", 32) as u64
        } else if allow_big_w {
            d.pick("swarm.windowsize.table", &WINDOWS)
        } else {
            d.pick("swarm.windowsize.table", &WINDOWS[..8])
        };
        o.w = w;
        o.opts.push(("windowsize".into(), w.to_string()));
    }
    if d.chance("swarm.opt.timeout", 1, 2) {
        let t = d.pick("swarm.timeout.table", &TIMEOUTS);
        o.tmo_s = t;
        o.opts.push(("timeout".into(), t.to_string()));
    }
    if d.chance("swarm.opt.tsize", 1, 3) {
        o.opts.push(("tsize".into(), len_hint.unwrap_or(0).to_string()));
    }
    if o.opts.len() > 1 && d.chance("swarm.opt.shuffle", 1, 2) {
        let k = d.range("swarm.opt.rot", o.opts.len() as u32) as usize;
        o.opts.rotate_left(k);
    }
    if d.chance("swarm.opt.repeat", 1, 12) {
        // an option named twice: the later value is the one in force (and the one lengths were drawn for)
        if let Some(i) = o.opts.iter().position(|(k, _)| k == "blksize" || k == "windowsize") {
            let (k, v) = o.opts[i].clone();
            let other = if k == "blksize" { d.pick("swarm.opt.repeat.blksize", &["600", "8", "1500", "65464"]) } else { d.pick("swarm.opt.repeat.windowsize", &["1", "3", "9", "64"]) };
            if other != v {
                o.opts.insert(d.range("swarm.opt.repeat.at", i as u32 + 1) as usize, (k, other.to_string()));
            }
        }
    }
    if !o.opts.is_empty() && d.chance("swarm.opt.case", 1, 4) {
        // option names are case-insensitive; an unknown option in between is ignored
        for (k, _) in o.opts.iter_mut() {
            *k = if d.chance("swarm.opt.upper", 1, 2) { k.to_uppercase() } else { let mut c = k.chars(); c.next().map(|f| f.to_uppercase().collect::<String>() + c.as_str()).unwrap_or_default() };
        }
        if d.chance("swarm.opt.unknown", 1, 2) {
            o.opts.insert(d.range("swarm.opt.unknown.at", o.opts.len() as u32 + 1) as usize, ("x-vendor".into(), "pxe".into()));
        }
    }
    o
}

/// File length classes relative to the block and window size.
pub fn draw_len(d: &Draw, b: usize, w: u64, max_blocks: u64, max_bytes: usize) -> usize {
    let wb = (w.min(max_blocks) as usize) * b;
    let k = 1 + d.range("swarm.len.k", 3) as usize;
    let r = d.range("swarm.len.r", b as u32) as usize;
    let cands: [usize; 14] = [
        3 * b + 5,
        0,
        1,
        b - 1,
        b,
        b + 1,
        2 * b,
        wb.saturating_sub(1),
        wb,
        wb + 1,
        wb + b,
        k * wb + r,
        (k + 1) * wb,
        2 * wb + b - 1,
    ];
    let len = d.pick("swarm.len.class", &cands);
    len.min(max_blocks as usize * b).min(max_bytes)
}

pub struct XferPlan {
    pub kind: Kind,
    pub srv: ServerCfg,
    pub oc: OptChoice,
    pub len: usize,
    pub dupn: u64,
}

fn peer_timeout(d: &Draw, tmo_s: u64) -> Ns {
    let f = d.pick("swarm.peer.timeout_factor", &[100u64, 60, 150, 300]);
    tmo_s * SEC / 100 * f
}

/// A second client that downloads a small file with default options while something else is going on.
pub fn add_bystander(d: &Draw, w: &Arc<World>, srv: &ServerCfg, dir: &std::path::Path) -> ((usize, Ns), XferSpec) {
    let side = Arc::new(content(300 + d.range("bystander.len", 900) as usize, 55));
    // served from wherever read requests are served from
    let _ = dir;
    let path = srv.send_dir.clone().unwrap_or_else(|| srv.dir.clone()).join("side.bin");
    std::fs::write(&path, &*side).expect("write side file");
    let mut xc = XferCfg::new(srv.addr(), "side.bin");
    xc.resend_request = false;
    let (p, c) = w.add_peer(Box::new(Reader::new(xc)), srv.v6, 0);
    let at = 10 * MS + d.range("bystander.start_us", 1500) as Ns * 1000;
    ((p, at), XferSpec { client: c, peer: p, kind: Kind::Download, content: side, path, conformant: true, dally: true, timeout_ratio: 1 })
}

/// Enumerated strata for C04 / C07 / C08: small configurations x every position, walked by the run
/// number (every fourth run), so that a batch covers the whole product deterministically.
///   C04: one drop or one duplicate on the n-th datagram of the data phase
///   C07: the peer falls silent or sends ERROR(code) at its j-th received datagram
///   C08: one duplicate / stale ACK (1..4 back) injected at the reader's j-th received datagram
pub const STRAT_W: [u64; 5] = [1, 2, 3, 4, 8];
pub fn strat_space(prop: &str) -> u64 {
    // kind x handshake x windowsize x blocks x tail x position x variant
    let common = 2 * 2 * 5 * 10 * 3;
    match prop {
        "C04" => common * 40 * 2,
        "C07" => common * 20 * 9,
        "C08" => (common / 2) * 20 * 5,
        // four names per stratum run
        "C03" => (crate::scen_srv::confine_space() + 3) / 4,
        _ => 0,
    }
}

fn xfer_stratum(prop: &'static str, w: &Arc<World>) -> Scn {
    let d = Draw { w };
    let sandbox = Sandbox::new();
    w.lock().sb_root = sandbox.root.to_string_lossy().into_owned();
    let dir = sandbox.dir("srv");
    let kind = if prop == "C08" || d.enumerate("strat.kind", 2) == 0 { Kind::Download } else { Kind::Upload };
    let handshake = d.enumerate("strat.handshake", 2) == 1;
    let wsz = if handshake { STRAT_W[d.enumerate("strat.windowsize", 5) as usize] } else { [1u64; 5][d.enumerate("strat.windowsize", 5) as usize] };
    let b: usize = if handshake { 16 } else { 512 };
    let blocks = 1 + d.enumerate("strat.blocks", 10) as usize + if handshake { wsz as usize } else { 0 };
    let tail = [0usize, 1, b - 1][d.enumerate("strat.tail", 3) as usize];
    let len = (blocks - 1) * b + tail;
    let mut srv = ServerCfg::new(&dir);
    srv.single_port = d.chance("swarm.single_port", 1, 3);
    let mut xc = XferCfg::new(srv.addr(), "data.bin");
    if handshake {
        xc.opts = vec![("blksize".into(), b.to_string()), ("windowsize".into(), wsz.to_string())];
    }
    xc.resend_request = false;
    xc.per_block_ack = d.chance("swarm.reader.per_block_ack", 1, 5);
    xc.gap_ack = !d.chance("swarm.reader.no_gap_ack", 1, 4);
    let mut fc = FaultCfg::default();
    let mut rules = Rules::default();
    let mut conformant = true;
    let what;
    match prop {
        "C04" => {
            rules.c04 = true;
            fc.after_first_data = true;
            let pos = d.enumerate("strat.position", 40) as u64;
            let fate = if d.enumerate("strat.fate", 2) == 0 { crate::world::Fate::Drop } else { crate::world::Fate::Dup };
            fc.forced_nth = Some((pos, fate));
            what = format!("{fate:?} on data-phase datagram #{pos}");
        }
        "C07" => {
            rules.c07 = true;
            let step = 1 + d.enumerate("strat.step", 20);
            let v = d.enumerate("strat.variant", 9);
            conformant = false;
            if v == 8 && kind == Kind::Upload {
                xc.die_after_blocks = Some(step as u64 - 1);
                what = format!("uploader dies after {} DATA datagrams", step - 1);
            } else if v == 8 {
                xc.script.push((step, Adv::Silent));
                what = format!("silence at step {step}");
            } else {
                xc.script.push((step, Adv::Error(v as u16, v % 2 == 0)));
                what = format!("ERROR {v} at step {step}");
            }
        }
        _ => {
            rules.c08 = true;
            let step = 1 + d.enumerate("strat.step", 20);
            let v = d.enumerate("strat.variant", 5);
            conformant = false;
            xc.script.push((step, if v == 0 { Adv::AckDup } else { Adv::AckStale(v) }));
            what = format!("{} at step {step}", if v == 0 { "duplicate ACK".to_string() } else { format!("stale ACK {v} back") });
        }
    }
    let data = Arc::new(content(len, 17));
    let path = dir.join("data.bin");
    if kind == Kind::Download {
        std::fs::write(&path, &*data).expect("write served file");
    }
    let desc = format!("STRATUM {kind:?} {} blocks={blocks} len={len} blksize={b} windowsize={wsz} handshake={handshake}: {what}", srv.describe());
    {
        let mut g = w.lock();
        g.budget_left = fc.budget;
        g.cfg = fc;
    }
    let dally = xc.dally;
    let (peer, client) = match kind {
        Kind::Download => w.add_peer(Box::new(Reader::new(xc)), false, 0),
        Kind::Upload => w.add_peer(Box::new(Writer::new(xc, data.to_vec())), false, 0),
    };
    let spec = XferSpec { client, peer, kind, content: data, path, conformant, dally, timeout_ratio: 1 };
    let mut mon = XferMon::new(prop, rules, vec![spec], 0);
    mon.probes.insert("stratum_runs", 1);
    w.add_monitor(Box::new(mon));
    boot_server(w, &srv).expect("server config");
    w.start_peer_at(peer, 10 * MS);
    Scn { sandbox, desc, step_cap: 400_000, time_cap: 2_000_000 * SEC, faultfree: false }
}

/// One server, one model client transferring one file; rules and faults depend on the property.
pub fn xfer(prop: &'static str, tier: Tier, w: &Arc<World>) -> Scn {
    let d = Draw { w };
    // runs with r % 4 == 0 (ship build) and r % 4 == 3 (chk build) walk the enumerated stratum with index r / 4
    if matches!(prop, "C04" | "C07" | "C08") && matches!(d.enumerate("strat.slot", 4), 0 | 3) {
        return xfer_stratum(prop, w);
    }
    let sandbox = Sandbox::new();
    w.lock().sb_root = sandbox.root.to_string_lossy().into_owned();
    let dir = sandbox.dir("srv");
    let mut kind = match prop {
        "C01" => Kind::Download,
        "C02" => Kind::Upload,
        _ => {
            if d.chance("swarm.kind.upload", 1, 2) {
                Kind::Upload
            } else {
                Kind::Download
            }
        }
    };
    let mut srv = ServerCfg::new(&dir);
    srv.single_port = d.chance("swarm.single_port", 1, 3);
    srv.v6 = d.chance("swarm.ipv6", 1, 8);
    srv.arg_rot = d.range("swarm.arg_rotation", 8) as usize;
    srv.keep_on_error = d.chance("swarm.flag.keep_on_error", 1, 6);
    let mut dir_layout: Option<(u32, std::path::PathBuf)> = None;
    if d.chance("swarm.distinct_dirs", 1, 4) {
        // explicit send and receive directories next to a general directory that holds a decoy of the same name
        let base = sandbox.dir("base");
        std::fs::write(base.join("data.bin"), content(777, 251)).expect("decoy");
        dir_layout = Some((d.range("swarm.dir_layout", 3), base));
    }
    let dupn: u64 = if d.chance("swarm.dup", 1, 6) { 1 + d.range("swarm.dup.n", 2) as u64 } else { 0 };
    if dupn > 0 {
        srv.dup = Some(dupn.to_string());
    }
    let big_w = prop == "C08" || prop == "C01";
    let max_blocks: u64 = if tier == Tier::Thorough { 96 } else { 40 };
    // length is drawn after the options because its classes are relative to them
    let mut oc0 = if prop == "C01" { draw_options_odd(&d, big_w) } else { draw_options(&d, big_w, None) };
    let mut len = draw_len(&d, oc0.b, oc0.w, max_blocks, 1 << 20);
    if (prop == "C01" || prop == "C02") && d.chance("swarm.big_file", 1, 120) {
        // files beyond 1 MiB with windows beyond 1 MiB: internal buffer boundaries must not show
        let (b, wz) = d.pick("swarm.big.shape", &[(60000usize, 18u64), (1000, 1100), (65464, 17), (1428, 800), (8192, 200)]);
        oc0.opts = vec![("blksize".into(), b.to_string()), ("windowsize".into(), wz.to_string())];
        oc0.b = b;
        oc0.w = wz;
        oc0.tmo_s = 5;
        len = d.pick("swarm.big.len", &[(1usize << 20) + 1000, 1_300_000, (2 << 20) + 5, (1 << 20) - 1]);
    }
    let mut full_window = false;
    if prop == "C08" && d.chance("swarm.full_window_65535", 1, if tier == Tier::Thorough { 800 } else { 3000 }) {
        // the boundary the statement names: windowsize 65535 with a completely full window outstanding
        kind = Kind::Download;
        oc0.opts = vec![("blksize".into(), "8".into()), ("windowsize".into(), "65535".into())];
        oc0.b = 8;
        oc0.w = 65535;
        oc0.tmo_s = 5;
        len = 65535 * 8 + d.pick("swarm.full_window.extra", &[3usize, 0, 8, 19]);
        full_window = true;
    }
    if prop == "C08" && !full_window && kind == Kind::Upload && d.chance("swarm.big_window_upload", 1, 150) {
        // more than a mebibyte arrives inside one window: the acknowledgement is still due after windowsize blocks
        let (b, wz) = d.pick("swarm.big_up.shape", &[(16384usize, 80u64), (65464, 17), (512, 2100), (8192, 150)]);
        oc0.opts = vec![("blksize".into(), b.to_string()), ("windowsize".into(), wz.to_string())];
        oc0.b = b;
        oc0.w = wz;
        oc0.tmo_s = 5;
        len = b * wz as usize + d.pick("swarm.big_up.tail", &[100usize, 0, b * 3 + 7]);
        full_window = true;
    }
    let mut wrap_class = false;
    if prop == "C04" && d.chance("swarm.wrap_class", 1, if tier == Tier::Thorough { 700 } else { 2500 }) {
        // "the loss of any one DATA or ACK" also holds for the datagrams that carry block numbers 65535, 0, 1
        let wz = d.pick("swarm.wrap.windowsize", &[16u64, 1, 2, 4, 64, 3, 4096]);
        oc0.opts = vec![("blksize".into(), "8".into()), ("windowsize".into(), wz.to_string())];
        oc0.b = 8;
        oc0.w = wz;
        oc0.tmo_s = 5;
        len = 65536 * 8 + d.pick("swarm.wrap.extra", &[5usize, 0, 8, 30]);
        wrap_class = true;
    }
    let mut isolated_class = false;
    if prop == "C04" && !wrap_class && d.chance("swarm.isolated_losses", 1, 12) {
        // a long lock-step or small-window transfer for "many single losses, each one recovered from"
        let b = d.pick("swarm.isolated.blksize", &[16usize, 64, 512]);
        let wz = d.pick("swarm.isolated.windowsize", &[1u64, 2, 3, 1]);
        oc0.opts = vec![("blksize".into(), b.to_string()), ("windowsize".into(), wz.to_string()), ("timeout".into(), "1".into())];
        if b == 512 && wz == 1 && d.chance("swarm.isolated.no_options", 1, 2) {
            oc0.opts.clear();
        }
        oc0.b = b;
        oc0.w = wz;
        oc0.tmo_s = if oc0.opts.is_empty() { 5 } else { 1 };
        len = b * (40 + d.range("swarm.isolated.blocks", 40) as usize) + d.pick("swarm.isolated.tail", &[7usize, 0, 15]);
        isolated_class = true;
    }
    let mut stray_at: Option<(u64, u8)> = None;
    if prop == "C02" && d.chance("swarm.wrap_class", 1, if tier == Tier::Thorough { 900 } else { 3500 }) {
        // uploads across the 16-bit wrap with a stray packet in the middle of the window that holds block 65536
        let wz = d.pick("swarm.wrap.windowsize", &[48u64, 3, 5, 100, 16, 7]);
        oc0.opts = vec![("blksize".into(), "8".into()), ("windowsize".into(), wz.to_string())];
        oc0.b = 8;
        oc0.w = wz;
        oc0.tmo_s = 5;
        len = (65536 + 2 * wz as usize) * 8 + 3;
        stray_at = Some((65535 + d.range("swarm.wrap.stray_after", 3) as u64, d.range("swarm.wrap.stray_kind", 3) as u8));
        wrap_class = true;
    }
    if prop == "C08" && d.chance("swarm.wrap_class", 1, if tier == Tier::Thorough { 900 } else { 3500 }) {
        // cumulative ACKs for a window that crosses the 65535 -> 0 roll-over
        kind = Kind::Download;
        let wz = d.pick("swarm.wrap.windowsize", &[4u64, 2, 8, 16, 64, 3]);
        oc0.opts = vec![("blksize".into(), "8".into()), ("windowsize".into(), wz.to_string())];
        oc0.b = 8;
        oc0.w = wz;
        oc0.tmo_s = 5;
        len = (65536 + wz as usize) * 8 + 5;
        wrap_class = true;
    }
    if (prop == "C08" || prop == "C01") && !wrap_class && !full_window && d.chance("swarm.huge_window_bytes", 1, if tier == Tier::Thorough { 1500 } else { 6000 }) {
        // windowsize x blksize beyond 32 MiB: the acknowledged window is still the one that is used
        kind = Kind::Download;
        oc0.opts = vec![("blksize".into(), "8192".into()), ("windowsize".into(), "5000".into())];
        oc0.b = 8192;
        oc0.w = 5000;
        oc0.tmo_s = 5;
        len = 8192 * 5200 + 77;
        full_window = true;
    }
    if prop == "C07" && d.chance("swarm.wrap_class", 1, if tier == Tier::Thorough { 900 } else { 3500 }) {
        // the final block may sit in a window that crosses the 65535 -> 0 roll-over
        let wz = d.pick("swarm.wrap.windowsize", &[4u64, 2, 8, 16, 3]);
        oc0.opts = vec![("blksize".into(), "8".into()), ("windowsize".into(), wz.to_string())];
        oc0.b = 8;
        oc0.w = wz;
        oc0.tmo_s = 5;
        len = (65535 + d.range("swarm.wrap.blocks_past", 4) as usize) * 8 + d.pick("swarm.wrap.extra", &[4usize, 0, 7]);
        wrap_class = true;
    }
    // the direction is final here
    if let Some((layout, base)) = dir_layout {
        match layout {
            0 => {
                srv.dir = base;
                srv.send_dir = Some(dir.clone());
                srv.recv_dir = Some(dir.clone());
            }
            1 => {
                // only the directory this transfer needs is named; the other one falls back to -d (the decoy)
                srv.dir = base;
                if kind == Kind::Upload {
                    srv.recv_dir = Some(dir.clone());
                } else {
                    srv.send_dir = Some(dir.clone());
                }
            }
            _ => {
                // -d is the directory this transfer needs; the flag for the other direction names the decoy
                if kind == Kind::Upload {
                    srv.send_dir = Some(base);
                } else {
                    srv.recv_dir = Some(base);
                }
            }
        }
    }
    let mut oc = oc0;
    for o in oc.opts.iter_mut() {
        if o.0 == "tsize" {
            o.1 = if kind == Kind::Upload { len.to_string() } else { "0".into() };
        }
    }
    let mut xc_no_resend = false;
    let salt = 1 + d.range("swarm.content.salt", 250) as u64;
    // the mode string of the request: the server moves octets whatever the request calls them
    let mode = if d.chance("swarm.mode.varied", 1, 6) { draw_mode(d.range("swarm.mode", 12)) } else { "octet" };
    let texty = d.chance("swarm.content.texty", 1, if mode.eq_ignore_ascii_case("octet") { 24 } else { 2 });
    let data = Arc::new(if texty {
        content_texty(len, salt, oc.b)
    } else if (prop == "C01" || prop == "C02") && d.chance("swarm.content.zero_runs", 1, 8) {
        content_with_zero_runs(len, salt, oc.b)
    } else {
        content(len, salt)
    });
    let fname = "data.bin";
    let path = dir.join(fname);
    if kind == Kind::Download {
        std::fs::write(&path, &*data).expect("write served file");
    } else if prop == "C08" && d.chance("swarm.upload.to_dev_null", 1, 16) {
        // the target exists as a link to /dev/null and --overwrite is on: the bytes go nowhere, the
        // acknowledgements are owed all the same (C08 judges the wire, not the disk)
        srv.overwrite = true;
        xc_no_resend = true;
        let _ = std::os::unix::fs::symlink("/dev/null", &path);
    } else if (prop == "C02" || prop == "C04") && d.chance("swarm.upload.overwrites_existing", 1, 4) {
        // the target already exists (longer or shorter than the upload) and --overwrite is on
        srv.overwrite = true;
        // with --overwrite a retransmitted WRQ starts a second worker on the same path (known finding D6,
        // C13's subject): this client does not retransmit its request and requests are not duplicated
        xc_no_resend = true;
        let old_len = d.pick("swarm.upload.old_len", &[len + 700, len / 2, len + 1, 3 * len + 5, 0]);
        std::fs::write(&path, content(old_len, 91)).expect("write pre-existing target");
    }

    // peer configuration
    let server_addr = srv.addr();
    let mut xc = XferCfg::new(server_addr, fname);
    xc.opts = oc.opts.clone();
    xc.mode = mode.to_string();
    if prop == "C02" && d.chance("swarm.writer.late_error", 1, 12) {
        // a client that sends an ERROR after its upload was acknowledged in full: the file stays
        xc.late_error = Some(d.pick("swarm.writer.late_error.code", &[0u16, 5]));
    }
    xc.timeout_ns = peer_timeout(&d, oc.tmo_s);
    xc.per_block_ack = d.chance("swarm.reader.per_block_ack", 1, 5);
    xc.gap_ack = !d.chance("swarm.reader.no_gap_ack", 1, 4);
    xc.eager_reack = d.chance("swarm.reader.eager_reack", 1, 4);
    xc.dally = !d.chance("swarm.reader.no_dally", 1, 4);
    xc.retries = 20;
    if xc_no_resend {
        xc.resend_request = false;
    }
    xc.stray_after_block = stray_at;
    if wrap_class || full_window {
        // a reader that acknowledges every block of a 4096-block window makes the sender resend the
        // whole window 4096 times (legal, quadratic): not what these long runs are about
        xc.per_block_ack = false;
        xc.eager_reack = false;
    }
    let nblocks = (len / oc.b) as u32 + 1;
    let mut conformant = true;

    let mut fc = FaultCfg { scale_ns: oc.tmo_s * SEC, ..Default::default() };
    let budget_max: u32 = if tier == Tier::Thorough { 10 } else { 4 };
    let mut rules = Rules::default();
    let mut faultfree = false;
    let mut wire_only = false;

    match prop {
        "C01" | "C02" => {
            if prop == "C01" {
                rules.c01 = true
            } else {
                rules.c02 = true
            }
            if d.chance("swarm.faultfree", 1, 8) {
                faultfree = true;
            } else {
                fc.fate_w = [30, 3, 3, 3, 1, 1];
                fc.budget = 1 + d.range("swarm.fault.budget", budget_max);
                fc.recv_err_w = if d.chance("swarm.fault.recv_err", 1, 4) { 30 } else { 0 };
                // a transiently failing send syscall: the transfer may die, it must not go on corrupted
                fc.send_err_w = if d.chance("swarm.fault.send_err", 1, 4) { 40 } else { 0 };
                // a failing or filling disk: whatever is acknowledged must be in the file all the same
                fc.disk_w = if prop == "C02" && d.chance("swarm.fault.disk", 1, 5) { 80 } else { 0 };
            }
            // adversarial acknowledgements / stray packets
            if d.chance("swarm.adversary", 1, 2) {
                conformant = false;
                let n = 1 + d.range("swarm.adv.count", 3);
                for _ in 0..n {
                    let step = 1 + d.range("swarm.adv.step", nblocks.min(40) + 2);
                    let a = if prop == "C01" {
                        match d.range("swarm.adv.kind", 6) {
                            0 => Adv::AckDup,
                            1 => Adv::AckStale(1 + d.range("swarm.adv.back", 4)),
                            2 => Adv::AckFuture(1 + d.range("swarm.adv.ahead", 4)),
                            3 => Adv::AckRaw(d.pick("swarm.adv.raw", &[0u16, 1, 2, 65535, 65534, 32768, 77])),
                            4 => Adv::StrayOack,
                            _ => Adv::Garbage,
                        }
                    } else {
                        match d.range("swarm.adv.kind", 5) {
                            0 => Adv::DupBlock(d.range("swarm.adv.back", 4)),
                            1 => Adv::StrayAck(d.pick("swarm.adv.raw", &[0u16, 1, 2, 65535, 77])),
                            2 => Adv::StrayOack,
                            3 => Adv::Garbage,
                            _ => Adv::DupBlock(0),
                        }
                    };
                    xc.script.push((step, a));
                }
            }
        }
        "C04" => {
            rules.c04 = true;
            xc.resend_request = false;
            fc.after_first_data = true;
            if d.chance("swarm.faultfree", 1, 10) {
                faultfree = true;
            } else {
                // many isolated faults spread over a transfer must be survivable: the budget is per window
                fc.fate_w = if d.chance("swarm.fault.sparse", 1, 2) { [60, 3, 2, 2, 1, 2] } else { [24, 3, 2, 2, 1, 2] };
                fc.budget = 1 + d.range("swarm.fault.budget", 2 * budget_max);
                fc.recv_err_w = if d.chance("swarm.fault.recv_err", 1, 4) { 40 } else { 0 };
                fc.stall_w = if d.chance("swarm.fault.stall", 1, 5) { 10 } else { 0 };
                fc.late_w = if d.chance("swarm.fault.lateness", 1, 3) { [2, 1, 1] } else { [1, 0, 0] };
            }
            if isolated_class {
                // six to ten single losses, each in an exchange of its own and each recovered from before
                // the next: never two failed receives in a row, so every one of them must be survived
                fc.fate_w = [1, 0, 0, 0, 0, 0];
                fc.recv_err_w = 0;
                fc.stall_w = 0;
                fc.budget = 0;
                faultfree = false;
                let per_window = oc.w + 1;
                let mut pos = 1 + d.range("swarm.isolated.first", 2 * per_window as u32) as u64;
                for _ in 0..6 + d.range("swarm.isolated.count", 5) {
                    fc.forced_list.push((pos, crate::world::Fate::Drop));
                    pos += 2 * per_window + 3 + d.range("swarm.isolated.jitter", 4) as u64;
                }
            }
            if wrap_class {
                // one loss, forced onto a datagram numbered around the wrap
                fc.fate_w = [1, 0, 0, 0, 0, 0];
                fc.recv_err_w = 0;
                fc.stall_w = 0;
                fc.budget = 0;
                let op = if d.chance("swarm.wrap.ack", 1, 2) { 4u8 } else { 3u8 };
                fc.forced.push((op, d.pick("swarm.wrap.number", &[0u16, 65535, 1]), crate::world::Fate::Drop));
                faultfree = false;
            }
        }
        "C07" => {
            rules.c07 = true;
            // the peer dies or aborts at a chosen step; the network itself is mostly clean
            let mode = d.range("swarm.c07.mode", 4);
            let step = 1 + d.range("swarm.c07.step", nblocks.min(40) + 1);
            match mode {
                0 => {
                    if kind == Kind::Upload && d.chance("swarm.c07.die_mid_window", 1, 2) {
                        // the uploading peer dies after a number of DATA datagrams, possibly inside a window
                        xc.die_after_blocks = Some(d.range("swarm.c07.die_after", nblocks.min(40) + 1) as u64);
                    } else {
                        // a burst of duplicate ACKs may precede the silence (they must not unsettle the retry budget)
                        for _ in 0..d.range("swarm.c07.dup_acks_before_silence", 9) {
                            xc.script.push((step, Adv::AckDup));
                        }
                        xc.script.push((step, Adv::Silent));
                        if kind == Kind::Download && d.chance("swarm.c07.strays_after_silence", 1, 3) {
                            // after k of the sender's timeouts the dead peer's socket emits a few well-formed packets of
                            // the wrong kind, then nothing again: the retry count must still end at its bound
                            let k = 1 + d.range("swarm.c07.strays.after_timeouts", 5) as Ns;
                            xc.strays_after_silence = Some((k * oc.tmo_s * SEC + oc.tmo_s * SEC / 2, 1 + d.range("swarm.c07.strays.count", 4)));
                        }
                    }
                    conformant = false;
                    // half of the dying peers close their socket: the server then sees ICMP port
                    // unreachable (ConnectionRefused on its connected socket) instead of silence
                    if d.chance("swarm.c07.icmp", 1, 2) {
                        w.lock().icmp = true;
                    }
                }
                1 => {
                    let code = d.range("swarm.c07.errcode", 8) as u16;
                    xc.script.push((step, if d.chance("swarm.c07.errtext", 1, 3) { Adv::ErrorText(code, d.range("swarm.c07.errtext.kind", 6) as u8) } else { Adv::Error(code, d.chance("swarm.c07.errmsg", 1, 2)) }));
                    conformant = false;
                }
                2 => {
                    // complete transfers with assorted acknowledgement patterns
                    if kind == Kind::Download && !wrap_class && len > 0 && d.chance("swarm.c07.file_shrinks", 1, 4) {
                        // the served file is cut short while it is being downloaded (log rotation, an overwrite):
                        // the transfer ends with the first short block, judged on the wire alone
                        let at = 1 + d.range("swarm.c07.shrink.at_block", nblocks.min(40)) as u64;
                        let newlen = d.range("swarm.c07.shrink.to", len as u32) as u64;
                        xc.truncate_at_block = Some((at, path.clone(), newlen));
                        wire_only = true;
                    }
                }
                _ => {
                    fc.fate_w = [30, 3, 2, 2, 0, 0];
                    fc.spare_requests = true;
                    fc.budget = 1 + d.range("swarm.fault.budget", 3);
                    fc.recv_err_w = if d.chance("swarm.fault.recv_err", 1, 3) { 40 } else { 0 };
                    fc.send_err_w = if d.chance("swarm.fault.send_err", 1, 3) { 40 } else { 0 };
                }
            }
            if mode >= 2 {
                faultfree = mode == 2;
            }
            if wrap_class {
                xc.script.clear();
                xc.die_after_blocks = None;
                conformant = true;
                fc.fate_w = [1, 0, 0, 0, 0, 0];
                fc.budget = 0;
                fc.recv_err_w = 0;
                fc.send_err_w = 0;
                faultfree = true;
            }
        }
        "C08" => {
            rules.c08 = true;
            if kind == Kind::Download {
                if d.chance("swarm.adversary", 3, 4) {
                    conformant = false;
                    let n = 1 + d.range("swarm.adv.count", 3);
                    for _ in 0..n {
                        let step = 1 + d.range("swarm.adv.step", nblocks.min(40) + 2);
                        let a = match d.range("swarm.adv.kind", 6) {
                            0 => Adv::AckDup,
                            1 => Adv::AckStale(1 + d.range("swarm.adv.back", 4)),
                            2 => Adv::AckStale(0),
                            3 => Adv::StrayOack,
                            4 => Adv::Garbage,
                            _ => Adv::AckDup,
                        };
                        xc.script.push((step, a));
                    }
                    // several identical duplicates in a row (a peer whose ACK was multiplied on the way)
                    if d.chance("swarm.adv.dup_ack_burst", 1, 4) {
                        xc.dup_ack_burst = 2 + d.range("swarm.adv.dup_ack_burst.n", 4);
                    }
                }
            }
            if full_window && oc.w == 65535 {
                conformant = false;
                xc.script.clear();
                xc.script.push((2 + d.range("swarm.full_window.step", 2), Adv::AckDup));
            }
            if wrap_class || (full_window && oc.w != 65535) {
                conformant = true;
                xc.script.clear();
            }
            if !full_window && !wrap_class && d.chance("swarm.faults", 1, 2) {
                fc.fate_w = [24, 2, 2, 2, 1, 3];
                fc.budget = 1 + d.range("swarm.fault.budget", budget_max);
                fc.late_w = if d.chance("swarm.fault.lateness", 1, 3) { [2, 1, 1] } else { [1, 0, 0] };
            } else {
                faultfree = conformant;
            }
        }
        _ => {}
    }

    // a duplicated request starts a second worker for the same client (and, for uploads, the same
    // path: known finding D6, C13's subject): request datagrams are exempt from network faults here
    fc.spare_requests = true;
    if !wrap_class && !full_window && len < 300_000 {
        light_sched(&d, &mut fc);
    }
    if (wrap_class && prop == "C02") || (full_window && oc.w == 5000) {
        // long runs: only the one thing they are about (the stray packet / the window size), no random faults
        fc.fate_w = [1, 0, 0, 0, 0, 0];
        fc.budget = 0;
        fc.recv_err_w = 0;
        fc.send_err_w = 0;
        xc.script.clear();
    }
    let desc = format!(
        "{:?} {} mode={mode} len={} blocks={} opts={:?} dup={} peer[timeout={}ms per_block={} gap_ack={} eager={} dally={} script={:?}] faults[budget={} fates={:?} recv_err={} stall={}]",
        kind,
        srv.describe(),
        len,
        nblocks,
        oc.opts,
        dupn,
        xc.timeout_ns / MS,
        xc.per_block_ack,
        xc.gap_ack,
        xc.eager_reack,
        xc.dally,
        xc.script,
        fc.budget,
        fc.fate_w,
        fc.recv_err_w,
        fc.stall_w
    );
    {
        let mut g = w.lock();
        g.budget_left = fc.budget;
        g.cfg = fc;
    }
    let dally = xc.dally;
    let timeout_ratio = ((xc.timeout_ns + oc.tmo_s * SEC - 1) / (oc.tmo_s * SEC)).max(1) as u32;
    let (peer, client) = match kind {
        Kind::Download => w.add_peer(Box::new(Reader::new(xc)), srv.v6, 0),
        Kind::Upload => w.add_peer(Box::new(Writer::new(xc, data.to_vec())), srv.v6, 0),
    };
    let mut specs = vec![XferSpec { client, peer, kind, content: data.clone(), path, conformant, dally, timeout_ratio }];
    let mut bystander = None;
    if (prop == "C01" || prop == "C02" || (prop == "C07" && conformant && !wrap_class)) && d.chance("swarm.bystander", 1, 4) {
        // another client fetches a small file with default options while the main transfer runs
        if kind == Kind::Download && !wrap_class && !full_window && len <= 200_000 && d.chance("swarm.bystander.same_file", 1, 2) {
            // ... or the very same file: two transfers of one file overlap and each reads it on its own
            let mut xb = XferCfg::new(srv.addr(), fname);
            xb.resend_request = false;
            let (p, c) = w.add_peer(Box::new(Reader::new(xb)), srv.v6, 0);
            let at = 10 * MS + d.range("bystander.start_us", 1500) as Ns * 1000;
            specs.push(XferSpec { client: c, peer: p, kind: Kind::Download, content: data.clone(), path: specs[0].path.clone(), conformant: true, dally: true, timeout_ratio: 1 });
            bystander = Some((p, at));
        } else {
            let (bp, spec) = add_bystander(&d, w, &srv, &dir);
            specs.push(spec);
            bystander = Some(bp);
        }
    }
    if wire_only {
        // the file changes under the transfer: content-based rules do not apply, the wire rules do
        w.add_monitor(Box::new(crate::more_mon::WireEndMon::new(client)));
    } else {
        w.add_monitor(Box::new(XferMon::new(prop, rules, specs, dupn)));
    }
    boot_server(w, &srv).expect("server config");
    w.start_peer_at(peer, 10 * MS);
    if let Some((bp, at)) = bystander {
        w.start_peer_at(bp, at);
    }
    Scn { sandbox, desc, step_cap: if wrap_class || full_window { 6_000_000 } else { 400_000 }, time_cap: 2_000_000 * SEC, faultfree }
}
