//! Model peers: pure state machines written from RFC 1350/2347/2348/2349/7440, run inside the
//! driver. They use the independent codec in `rfc.rs`.
use crate::rfc::{self, Pkt};
use crate::world::{Cx, Ns, Peer, SEC};
use std::any::Any;
use std::net::SocketAddr;

#[derive(Clone, Debug, PartialEq)]
pub enum Status {
    Idle,
    Running,
    Done,
    Failed(String),
}

/// Scripted misbehaviour: at the j-th datagram received from the server (1-based), before
/// normal processing.
#[derive(Clone, Debug, PartialEq)]
pub enum Adv {
    /// stop sending anything, forever
    Silent,
    /// send ERROR(code) and stop; the flag picks a plain message, else a variant by code parity (see `error_text`)
    Error(u16, bool),
    /// send ERROR(code) with message variant k (long / non-ASCII texts) and stop
    ErrorText(u16, u8),
    /// an extra ACK: duplicate of the last one sent
    AckDup,
    /// an extra ACK for `back` blocks before the last cumulatively acknowledged one
    AckStale(u32),
    /// an extra ACK `ahead` blocks beyond the last block received
    AckFuture(u32),
    /// an extra ACK with a raw number
    AckRaw(u16),
    StrayOack,
    Garbage,
    /// writer: send an earlier block again / reader: nothing
    DupBlock(u32),
    /// writer: a stray ACK to the transfer endpoint
    StrayAck(u16),
}

#[derive(Clone, Debug)]
pub struct XferCfg {
    pub server: SocketAddr,
    pub file: String,
    pub opts: Vec<(String, String)>,
    pub timeout_ns: Ns,
    pub retries: u32,
    pub dally: bool,
    pub per_block_ack: bool,
    pub gap_ack: bool,
    pub eager_reack: bool,
    pub script: Vec<(u32, Adv)>,
    /// resend the request when no first reply arrives (a real client does)
    pub resend_request: bool,
    /// writer: the process dies after having sent this many DATA datagrams (possibly mid-window)
    pub die_after_blocks: Option<u64>,
    /// writer: right after sending this block (1-based index) also send a stray packet
    /// (0 = OACK, 1 = ACK 0, 2 = garbage) to the transfer endpoint
    pub stray_after_block: Option<(u64, u8)>,
    /// reader: answer the OACK with this block number instead of 0 (a confused client)
    pub bad_oack_ack: Option<u16>,
    /// reader: a slow client that waits this long before every ACK it sends
    pub think_ns: Ns,
    /// a finished client closes its socket at once (what real clients do): later datagrams bounce
    pub close_when_done: bool,
    /// the transfer mode string of the request (the server transfers octets whatever it says)
    pub mode: String,
    /// reader/writer: repeat an adversarial duplicate ACK this many times in a row
    pub dup_ack_burst: u32,
    /// writer: once the final ACK is in, send an ERROR with this code to the transfer endpoint (a client
    /// that tears down noisily, or answers a surplus copy of the final ACK): the upload is complete all the same
    pub late_error: Option<u16>,
    /// reader: once silent, wake up after this long, send that many stray OACKs (well-formed packets of
    /// the wrong kind) to the transfer endpoint and fall silent again
    pub strays_after_silence: Option<(Ns, u32)>,
    /// reader: when block k has arrived, truncate the served file to this length (a file that shrinks
    /// while it is being downloaded)
    pub truncate_at_block: Option<(u64, std::path::PathBuf, u64)>,
}

impl XferCfg {
    pub fn new(server: SocketAddr, file: &str) -> XferCfg {
        XferCfg {
            server,
            file: file.to_string(),
            opts: vec![],
            timeout_ns: 5 * SEC,
            retries: 20,
            dally: true,
            per_block_ack: false,
            gap_ack: true,
            eager_reack: false,
            script: vec![],
            resend_request: true,
            mode: "octet".into(),
            dup_ack_burst: 1,
            late_error: None,
            strays_after_silence: None,
            truncate_at_block: None,
            die_after_blocks: None,
            stray_after_block: None,
            bad_oack_ack: None,
            think_ns: 0,
            close_when_done: false,
        }
    }
    /// Requested value of an option; if the request repeats the option, the largest one.
    pub fn opt_num(&self, name: &str) -> Option<u64> {
        self.opts.iter().filter(|(k, _)| k.eq_ignore_ascii_case(name)).filter_map(|(_, v)| v.parse::<u64>().ok()).max()
    }
}

#[derive(Clone, Debug, Default)]
pub struct Negotiated {
    pub got_oack: bool,
    pub oack: Vec<(String, String)>,
    pub blksize: usize,
    pub windowsize: u64,
    pub oack_bad: Option<String>,
}

/// Error texts a real peer may send: empty, short, long ASCII, long with multi-byte characters at
/// every alignment.
pub fn error_text(k: u8) -> String {
    match k % 6 {
        0 => String::new(),
        1 => "scripted abort".to_string(),
        2 => "x".repeat(200),
        3 => format!("{}{}", "a".repeat(63), "\u{e9}".repeat(40)),
        4 => format!("{}{}", "a".repeat(62), "\u{20ac}".repeat(30)),
        _ => "\u{fc}berlauf: ".to_string() + &"\u{1f4a5}".repeat(25),
    }
}

fn adopt(cfg: &XferCfg, oack: &[(String, String)]) -> Negotiated {
    let mut n = Negotiated { got_oack: true, oack: oack.to_vec(), blksize: 512, windowsize: 1, oack_bad: None };
    for (k, v) in oack {
        let val: Option<u64> = v.parse().ok();
        let asked = cfg.opt_num(k);
        if rfc::opt(&cfg.opts, k).is_none() {
            n.oack_bad = Some(format!("option {k} not requested"));
        }
        match (k.to_ascii_lowercase().as_str(), val) {
            ("blksize", Some(x)) => {
                if asked.map_or(true, |a| x > a) || x < 8 {
                    n.oack_bad = Some(format!("blksize {x} vs requested {asked:?}"));
                }
                n.blksize = x.min(65464).max(1) as usize;
            }
            ("windowsize", Some(x)) => {
                if asked.map_or(true, |a| x > a) || x == 0 {
                    n.oack_bad = Some(format!("windowsize {x} vs requested {asked:?}"));
                }
                n.windowsize = x.clamp(1, 65535);
            }
            ("timeout", Some(x)) => {
                if !cfg.opts.iter().any(|(k2, v2)| k2.eq_ignore_ascii_case(k) && v2.parse::<u64>().ok() == Some(x)) {
                    n.oack_bad = Some(format!("timeout {x} vs requested {asked:?}"));
                }
            }
            ("tsize", Some(_)) => {}
            (_, None) => n.oack_bad = Some(format!("non-numeric value for {k}")),
            _ => {}
        }
    }
    n
}

// ------------------------------------------------------------------------------------------
// Reader: downloads a file
// ------------------------------------------------------------------------------------------

pub struct Reader {
    pub cfg: XferCfg,
    pub status: Status,
    pub neg: Negotiated,
    pub buf: Vec<u8>,
    /// next expected block (unwrapped, 1-based)
    pub exp: u64,
    cnt: u64,
    pub tid: Option<SocketAddr>,
    pub first_reply: Option<Vec<u8>>,
    pub foreign: u64,
    pub rx: u32,
    retries: u32,
    gen: u64,
    gap_signalled: bool,
    silent: bool,
    pub last_ack_sent: Option<u64>,
    pub acks_sent: u64,
    pub requests_sent: u32,
    pub done_at: Option<Ns>,
    pub got_error: Option<(u16, String)>,
    pub keep_bytes: bool,
    pub total: u64,
    pub hash: u64,
}

impl Reader {
    pub fn new(cfg: XferCfg) -> Reader {
        Reader {
            cfg,
            status: Status::Idle,
            neg: Negotiated { blksize: 512, windowsize: 1, ..Default::default() },
            buf: Vec::new(),
            exp: 1,
            cnt: 0,
            tid: None,
            first_reply: None,
            foreign: 0,
            rx: 0,
            retries: 0,
            gen: 0,
            gap_signalled: false,
            silent: false,
            last_ack_sent: None,
            acks_sent: 0,
            requests_sent: 0,
            done_at: None,
            got_error: None,
            keep_bytes: true,
            total: 0,
            hash: 0xcbf29ce484222325,
        }
    }

    fn arm(&mut self, cx: &mut Cx) {
        self.gen += 1;
        cx.timer(self.cfg.timeout_ns, self.gen);
    }

    fn send_request(&mut self, cx: &mut Cx) {
        let p = Pkt::Rrq { file: self.cfg.file.clone(), mode: self.cfg.mode.clone(), opts: self.cfg.opts.clone() };
        self.requests_sent += 1;
        cx.send(self.cfg.server, &rfc::encode(&p));
    }

    fn send_ack(&mut self, cx: &mut Cx, idx: u64) {
        if self.cfg.think_ns > 0 {
            // a slow client: the ACK leaves after its think time (token space above 2^62)
            self.last_ack_sent = Some(idx);
            cx.timer(self.cfg.think_ns, (1u64 << 62) | idx);
            return;
        }
        if let Some(t) = self.tid {
            self.last_ack_sent = Some(idx);
            self.acks_sent += 1;
            cx.send(t, &rfc::encode(&Pkt::Ack(idx as u16)));
        }
    }

    fn run_script(&mut self, cx: &mut Cx) -> bool {
        let step = self.rx;
        let acts: Vec<Adv> = self.cfg.script.iter().filter(|(j, _)| *j == step).map(|(_, a)| a.clone()).collect();
        for a in acts {
            let to = match self.tid {
                Some(t) => t,
                None => continue,
            };
            match a {
                Adv::Silent => {
                    cx.adversarial("peer-silent");
                    cx.note(format!("reader goes silent at step {step}"));
                    if cx.icmp_enabled() {
                        cx.close_endpoint();
                    }
                    self.silent = true;
                    self.gen += 1;
                    self.status = Status::Failed("scripted silence".into());
                    if let Some((after, _)) = self.cfg.strays_after_silence {
                        cx.timer(after, 1u64 << 61);
                    }
                    return true;
                }
                Adv::Error(code, with_msg) => {
                    cx.adversarial("peer-error");
                    let msg = if with_msg { "scripted abort".to_string() } else { String::new() };
                    cx.send(to, &rfc::encode(&Pkt::Error { code, msg }));
                    self.silent = true;
                    self.gen += 1;
                    self.status = Status::Failed(format!("scripted ERROR {code}"));
                    return true;
                }
                Adv::ErrorText(code, k) => {
                    cx.adversarial("peer-error");
                    cx.send(to, &rfc::encode(&Pkt::Error { code, msg: error_text(k) }));
                    self.silent = true;
                    self.gen += 1;
                    self.status = Status::Failed(format!("scripted ERROR {code}"));
                    return true;
                }
                Adv::AckDup => {
                    let n = self.last_ack_sent.unwrap_or(0);
                    for _ in 0..self.cfg.dup_ack_burst.max(1) {
                        cx.adversarial("dup-ack");
                        cx.send(to, &rfc::encode(&Pkt::Ack(n as u16)));
                    }
                }
                Adv::AckStale(back) => {
                    cx.adversarial("stale-ack");
                    let base = self.last_ack_sent.unwrap_or(0);
                    let n = base.wrapping_sub(back as u64);
                    cx.send(to, &rfc::encode(&Pkt::Ack(n as u16)));
                }
                Adv::AckFuture(ahead) => {
                    cx.adversarial("future-ack");
                    let n = (self.exp - 1) + ahead as u64;
                    cx.send(to, &rfc::encode(&Pkt::Ack(n as u16)));
                }
                Adv::AckRaw(n) => {
                    cx.adversarial("bogus-ack");
                    cx.send(to, &rfc::encode(&Pkt::Ack(n)));
                }
                Adv::StrayOack => {
                    cx.adversarial("stray");
                    cx.send(to, &rfc::encode(&Pkt::Oack(vec![("blksize".into(), "8".into())])));
                }
                Adv::Garbage => {
                    cx.adversarial("stray");
                    cx.send(to, &[0xde, 0xad, 0xbe, 0xef, 0x00]);
                }
                Adv::DupBlock(_) | Adv::StrayAck(_) => {}
            }
        }
        false
    }

    fn accept(&mut self, payload: &[u8]) {
        self.total += payload.len() as u64;
        for b in payload {
            self.hash ^= *b as u64;
            self.hash = self.hash.wrapping_mul(0x100000001b3);
        }
        if self.keep_bytes {
            self.buf.extend_from_slice(payload);
        }
    }

    fn on_data(&mut self, cx: &mut Cx, n: u16, payload: &[u8]) {
        let b = self.neg.blksize;
        let w = self.neg.windowsize;
        let expn = self.exp as u16;
        if n == expn {
            if payload.len() > b {
                // a conformant sender never exceeds the block size; treat as protocol failure
                self.status = Status::Failed(format!("oversize DATA {} > blksize {b}", payload.len()));
                self.gen += 1;
                return;
            }
            self.accept(payload);
            let idx = self.exp;
            if let Some((k, path, newlen)) = &self.cfg.truncate_at_block {
                if idx == *k {
                    cx.adversarial("file-truncated");
                    if let Ok(f) = std::fs::OpenOptions::new().write(true).open(path) {
                        let _ = f.set_len(*newlen);
                    }
                }
            }
            self.exp += 1;
            self.cnt += 1;
            self.retries = 0;
            self.gap_signalled = false;
            if payload.len() < b {
                self.send_ack(cx, idx);
                self.cnt = 0;
                self.status = Status::Done;
                self.done_at = Some(cx.now());
                self.gen += 1;
                if self.cfg.dally {
                    self.arm(cx);
                }
                return;
            }
            if self.cnt >= w || self.cfg.per_block_ack {
                self.send_ack(cx, idx);
                self.cnt = 0;
            }
            self.arm(cx);
        } else if n == expn.wrapping_sub(1) {
            // duplicate of the last in-order block: lost-ACK recovery
            if self.cnt == 0 || self.cfg.eager_reack {
                let idx = self.exp - 1;
                self.send_ack(cx, idx);
                self.cnt = 0;
                self.arm(cx);
            }
        } else {
            let d = n.wrapping_sub(expn) as u64;
            if d < w {
                // a later block of the window: something was lost
                if self.cfg.gap_ack && !self.gap_signalled {
                    self.gap_signalled = true;
                    let idx = self.exp - 1;
                    self.send_ack(cx, idx);
                    self.cnt = 0;
                    self.arm(cx);
                }
            }
            // else: stale, ignore
        }
    }
}

impl Peer for Reader {
    fn start(&mut self, cx: &mut Cx) {
        self.status = Status::Running;
        self.send_request(cx);
        self.arm(cx);
    }

    fn on_datagram(&mut self, cx: &mut Cx, from: SocketAddr, data: &[u8]) {
        if self.silent {
            return;
        }
        match self.tid {
            None => {
                self.tid = Some(from);
                self.first_reply = Some(data.to_vec());
            }
            Some(t) if t != from => {
                self.foreign += 1;
                return;
            }
            _ => {}
        }
        self.rx += 1;
        // a client does not answer an ERROR: scripted misbehaviour applies to ongoing transfers only
        let refused = matches!(rfc::decode(data), Some(Pkt::Error { .. }));
        if !refused && self.run_script(cx) {
            return;
        }
        let pkt = rfc::decode(data);
        if self.status == Status::Done {
            // dallying: re-acknowledge a repeated final block
            if let Some(Pkt::Data { n, .. }) = pkt {
                if self.cfg.dally && n == (self.exp - 1) as u16 {
                    let idx = self.exp - 1;
                    self.send_ack(cx, idx);
                }
            }
            return;
        }
        if self.status != Status::Running {
            return;
        }
        match pkt {
            Some(Pkt::Oack(o)) => {
                if self.rx == 1 && !self.cfg.opts.is_empty() {
                    self.neg = adopt(&self.cfg, &o);
                    match self.cfg.bad_oack_ack {
                        Some(k) => {
                            cx.adversarial("bogus-ack");
                            if let Some(t) = self.tid {
                                cx.send(t, &rfc::encode(&Pkt::Ack(k)));
                            }
                        }
                        None => self.send_ack(cx, 0),
                    }
                    self.arm(cx);
                }
            }
            Some(Pkt::Data { n, payload }) => self.on_data(cx, n, &payload),
            Some(Pkt::Error { code, msg }) => {
                self.got_error = Some((code, msg.clone()));
                self.status = Status::Failed(format!("ERROR {code} {msg}"));
                self.gen += 1;
            }
            _ => {}
        }
    }

    fn on_timer(&mut self, cx: &mut Cx, token: u64) {
        if token == 1u64 << 61 {
            if let (Some((_, n)), Some(t)) = (self.cfg.strays_after_silence, self.tid) {
                for _ in 0..n {
                    cx.adversarial("stray");
                    cx.send(t, &rfc::encode(&Pkt::Oack(vec![("blksize".into(), "8".into())])));
                }
            }
            return;
        }
        if token & (1u64 << 62) != 0 && token != u64::MAX {
            if !self.silent {
                if let Some(t) = self.tid {
                    self.acks_sent += 1;
                    cx.send(t, &rfc::encode(&Pkt::Ack((token & 0xffff) as u16)));
                }
            }
            return;
        }
        if token != self.gen || self.silent {
            return;
        }
        match self.status {
            Status::Done => { /* dally period over */ }
            Status::Running => {
                self.retries += 1;
                if self.retries > self.cfg.retries {
                    self.status = Status::Failed("timeout".into());
                    return;
                }
                if self.tid.is_none() {
                    if self.cfg.resend_request {
                        self.send_request(cx);
                    }
                } else {
                    let idx = self.exp - 1;
                    if idx > 0 || self.neg.got_oack {
                        self.send_ack(cx, idx);
                        self.cnt = 0;
                    }
                }
                self.arm(cx);
            }
            _ => {}
        }
    }

    fn as_any(&self) -> &dyn Any {
        self
    }
    fn as_any_mut(&mut self) -> &mut dyn Any {
        self
    }
}

// ------------------------------------------------------------------------------------------
// Writer: uploads a file
// ------------------------------------------------------------------------------------------

pub struct Writer {
    pub cfg: XferCfg,
    pub content: Vec<u8>,
    pub status: Status,
    pub neg: Negotiated,
    /// first unacknowledged block (1-based, unwrapped)
    pub base: u64,
    next: u64,
    pub highest_sent: u64,
    pub tid: Option<SocketAddr>,
    pub first_reply: Option<Vec<u8>>,
    pub foreign: u64,
    pub rx: u32,
    retries: u32,
    gen: u64,
    silent: bool,
    pub requests_sent: u32,
    pub got_error: Option<(u16, String)>,
    pub blocks_sent: u64,
    pub done_at: Option<Ns>,
}

impl Writer {
    pub fn new(cfg: XferCfg, content: Vec<u8>) -> Writer {
        Writer {
            cfg,
            content,
            status: Status::Idle,
            neg: Negotiated { blksize: 512, windowsize: 1, ..Default::default() },
            base: 1,
            next: 1,
            highest_sent: 0,
            tid: None,
            first_reply: None,
            foreign: 0,
            rx: 0,
            retries: 0,
            gen: 0,
            silent: false,
            requests_sent: 0,
            got_error: None,
            blocks_sent: 0,
            done_at: None,
        }
    }

    pub fn nblocks(&self) -> u64 {
        (self.content.len() / self.neg.blksize) as u64 + 1
    }

    pub fn block(&self, i: u64) -> &[u8] {
        let b = self.neg.blksize;
        let st = ((i - 1) as usize) * b;
        let en = (st + b).min(self.content.len());
        if st >= self.content.len() {
            &[]
        } else {
            &self.content[st..en]
        }
    }

    fn arm(&mut self, cx: &mut Cx) {
        self.gen += 1;
        cx.timer(self.cfg.timeout_ns, self.gen);
    }

    fn send_request(&mut self, cx: &mut Cx) {
        let p = Pkt::Wrq { file: self.cfg.file.clone(), mode: self.cfg.mode.clone(), opts: self.cfg.opts.clone() };
        self.requests_sent += 1;
        cx.send(self.cfg.server, &rfc::encode(&p));
    }

    fn send_block(&mut self, cx: &mut Cx, i: u64) {
        if self.silent {
            return;
        }
        if let Some(n) = self.cfg.die_after_blocks {
            if self.blocks_sent >= n {
                cx.adversarial("peer-silent");
                cx.note(format!("writer dies after {n} DATA datagrams"));
                if cx.icmp_enabled() {
                    cx.close_endpoint();
                }
                self.silent = true;
                self.gen += 1;
                self.status = Status::Failed("scripted death".into());
                return;
            }
        }
        if let Some(t) = self.tid {
            let d = rfc::encode(&Pkt::Data { n: i as u16, payload: self.block(i).to_vec() });
            self.blocks_sent += 1;
            cx.send(t, &d);
            if let Some((at, kind)) = self.cfg.stray_after_block {
                if at == i {
                    cx.adversarial("stray");
                    let bytes = match kind {
                        0 => rfc::encode(&Pkt::Oack(vec![("blksize".into(), self.neg.blksize.to_string())])),
                        1 => rfc::encode(&Pkt::Ack(0)),
                        _ => vec![0x00, 0x09, 0xff],
                    };
                    cx.send(t, &bytes);
                }
            }
        }
    }

    fn pump(&mut self, cx: &mut Cx) {
        let n = self.nblocks();
        let w = self.neg.windowsize;
        while self.next < self.base + w && self.next <= n && !self.silent {
            let i = self.next;
            self.send_block(cx, i);
            self.highest_sent = self.highest_sent.max(i);
            self.next += 1;
        }
        if !self.silent {
            self.arm(cx);
        }
    }

    fn run_script(&mut self, cx: &mut Cx) -> bool {
        let step = self.rx;
        let acts: Vec<Adv> = self.cfg.script.iter().filter(|(j, _)| *j == step).map(|(_, a)| a.clone()).collect();
        for a in acts {
            let to = match self.tid {
                Some(t) => t,
                None => continue,
            };
            match a {
                Adv::Silent => {
                    cx.adversarial("peer-silent");
                    cx.note(format!("writer goes silent at step {step}"));
                    if cx.icmp_enabled() {
                        cx.close_endpoint();
                    }
                    self.silent = true;
                    self.gen += 1;
                    self.status = Status::Failed("scripted silence".into());
                    return true;
                }
                Adv::Error(code, with_msg) => {
                    cx.adversarial("peer-error");
                    let msg = if with_msg { "scripted abort".to_string() } else { String::new() };
                    cx.send(to, &rfc::encode(&Pkt::Error { code, msg }));
                    self.silent = true;
                    self.gen += 1;
                    self.status = Status::Failed(format!("scripted ERROR {code}"));
                    return true;
                }
                Adv::ErrorText(code, k) => {
                    cx.adversarial("peer-error");
                    cx.send(to, &rfc::encode(&Pkt::Error { code, msg: error_text(k) }));
                    self.silent = true;
                    self.gen += 1;
                    self.status = Status::Failed(format!("scripted ERROR {code}"));
                    return true;
                }
                Adv::DupBlock(back) => {
                    if self.highest_sent >= 1 {
                        cx.adversarial("dup-block");
                        let i = self.highest_sent.saturating_sub(back as u64).max(1);
                        self.send_block(cx, i);
                    }
                }
                Adv::StrayAck(n) => {
                    cx.adversarial("stray");
                    cx.send(to, &rfc::encode(&Pkt::Ack(n)));
                }
                Adv::StrayOack => {
                    cx.adversarial("stray");
                    cx.send(to, &rfc::encode(&Pkt::Oack(vec![("blksize".into(), "8".into())])));
                }
                Adv::Garbage => {
                    cx.adversarial("stray");
                    cx.send(to, &[0x00, 0x09, 0xff]);
                }
                _ => {}
            }
        }
        false
    }
}

impl Peer for Writer {
    fn start(&mut self, cx: &mut Cx) {
        self.status = Status::Running;
        self.send_request(cx);
        self.arm(cx);
    }

    fn on_datagram(&mut self, cx: &mut Cx, from: SocketAddr, data: &[u8]) {
        if self.silent {
            return;
        }
        match self.tid {
            None => {
                self.tid = Some(from);
                self.first_reply = Some(data.to_vec());
            }
            Some(t) if t != from => {
                self.foreign += 1;
                return;
            }
            _ => {}
        }
        self.rx += 1;
        // a client does not answer an ERROR: scripted misbehaviour applies to ongoing transfers only
        let refused = matches!(rfc::decode(data), Some(Pkt::Error { .. }));
        if !refused && self.run_script(cx) {
            return;
        }
        if self.status != Status::Running {
            return;
        }
        match rfc::decode(data) {
            Some(Pkt::Oack(o)) => {
                if self.rx == 1 && !self.cfg.opts.is_empty() {
                    self.neg = adopt(&self.cfg, &o);
                    self.retries = 0;
                    self.pump(cx);
                }
            }
            Some(Pkt::Ack(n)) => {
                if self.rx == 1 && n == 0 && self.highest_sent == 0 {
                    // plain acknowledgement of the request: RFC 1350 defaults
                    self.retries = 0;
                    self.pump(cx);
                    return;
                }
                if self.highest_sent == 0 {
                    return;
                }
                let last_acked = self.base - 1;
                let d = n.wrapping_sub(last_acked as u16) as u64;
                let outstanding = self.highest_sent - last_acked;
                if d >= 1 && d <= outstanding {
                    let i = last_acked + d;
                    self.base = i + 1;
                    self.retries = 0;
                    if i < self.highest_sent {
                        // cumulative ACK inside the window: resume right after it
                        self.next = self.base;
                    }
                    if self.base > self.nblocks() {
                        self.status = Status::Done;
                        self.done_at = Some(cx.now());
                        self.gen += 1;
                        if let (Some(code), Some(t)) = (self.cfg.late_error, self.tid) {
                            cx.adversarial("late-error");
                            cx.send(t, &rfc::encode(&Pkt::Error { code, msg: "done".into() }));
                        }
                        if self.cfg.close_when_done {
                            cx.note("writer is done and closes its socket".to_string());
                            cx.close_endpoint();
                            self.silent = true;
                        }
                        return;
                    }
                    self.pump(cx);
                }
                // duplicate / stale ACKs are ignored (Sorcerer's Apprentice)
            }
            Some(Pkt::Error { code, msg }) => {
                self.got_error = Some((code, msg.clone()));
                self.status = Status::Failed(format!("ERROR {code} {msg}"));
                self.gen += 1;
            }
            _ => {}
        }
    }

    fn on_timer(&mut self, cx: &mut Cx, token: u64) {
        if token != self.gen || self.silent || self.status != Status::Running {
            return;
        }
        self.retries += 1;
        if self.retries > self.cfg.retries {
            self.status = Status::Failed("timeout".into());
            return;
        }
        if self.tid.is_none() {
            if self.cfg.resend_request {
                self.send_request(cx);
            }
            self.arm(cx);
        } else if self.highest_sent == 0 {
            self.arm(cx);
        } else {
            self.next = self.base;
            self.pump(cx);
        }
    }

    fn as_any(&self) -> &dyn Any {
        self
    }
    fn as_any_mut(&mut self) -> &mut dyn Any {
        self
    }
}

// ------------------------------------------------------------------------------------------
// Scripted sender: intruders and hostile datagram sources
// ------------------------------------------------------------------------------------------

#[derive(Clone, Debug)]
pub enum Target {
    Addr(SocketAddr),
    /// the transfer endpoint (TID) that peer `k` is talking to, if known by then
    TidOfPeer(usize),
}

pub struct Scripted {
    /// (delay from start, target, bytes)
    pub script: Vec<(Ns, Target, Vec<u8>)>,
    pub received: Vec<(Ns, SocketAddr, Vec<u8>)>,
    pub sent: Vec<(usize, SocketAddr)>,
    pub skipped: u64,
    pub kind: &'static str,
}

impl Scripted {
    pub fn new(kind: &'static str, script: Vec<(Ns, Target, Vec<u8>)>) -> Scripted {
        Scripted { script, received: vec![], sent: vec![], skipped: 0, kind }
    }
}

pub fn tid_of(w: &crate::world::Inner, k: usize) -> Option<SocketAddr> {
    let p = w.peers.get(k)?.as_ref()?;
    if let Some(r) = p.as_any().downcast_ref::<Reader>() {
        return r.tid;
    }
    if let Some(wr) = p.as_any().downcast_ref::<Writer>() {
        return wr.tid;
    }
    None
}

impl Peer for Scripted {
    fn start(&mut self, cx: &mut Cx) {
        for (i, (d, _, _)) in self.script.iter().enumerate() {
            cx.timer(*d, i as u64);
        }
    }
    fn on_datagram(&mut self, cx: &mut Cx, from: SocketAddr, data: &[u8]) {
        self.received.push((cx.now(), from, data.to_vec()));
    }
    fn on_timer(&mut self, cx: &mut Cx, token: u64) {
        let (_, target, bytes) = self.script[token as usize].clone();
        let to = match target {
            Target::Addr(a) => Some(a),
            Target::TidOfPeer(k) => tid_of(cx.w, k),
        };
        match to {
            Some(a) => {
                cx.adversarial(self.kind);
                self.sent.push((token as usize, a));
                cx.send(a, &bytes);
            }
            None => self.skipped += 1,
        }
    }
    fn as_any(&self) -> &dyn Any {
        self
    }
    fn as_any_mut(&mut self) -> &mut dyn Any {
        self
    }
}
