//! Simulated small machine: any single allocation above the cap fails, deterministically.
//! (The largest legitimate buffer in a TFTP transfer is 65 468 bytes.)
use std::alloc::{GlobalAlloc, Layout, System};

pub const CAP: usize = 1 << 30;

pub struct CapAlloc;

unsafe impl GlobalAlloc for CapAlloc {
    unsafe fn alloc(&self, l: Layout) -> *mut u8 {
        if l.size() > CAP {
            return std::ptr::null_mut();
        }
        System.alloc(l)
    }
    unsafe fn dealloc(&self, p: *mut u8, l: Layout) {
        System.dealloc(p, l)
    }
    unsafe fn alloc_zeroed(&self, l: Layout) -> *mut u8 {
        if l.size() > CAP {
            return std::ptr::null_mut();
        }
        System.alloc_zeroed(l)
    }
    unsafe fn realloc(&self, p: *mut u8, l: Layout, n: usize) -> *mut u8 {
        if n > CAP {
            return std::ptr::null_mut();
        }
        System.realloc(p, l, n)
    }
}

#[global_allocator]
static GLOBAL: CapAlloc = CapAlloc;
