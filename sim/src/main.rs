#![allow(dead_code)]
mod alloc_cap;
mod choice;
mod common;
mod json;
mod peers;
mod rfc;
mod run;
mod scen;
mod world;
mod xfer_mon;

use choice::{run_seed, Choices};
use scen::Tier;
use std::io::Write;

extern "C" {
    fn dup(fd: i32) -> i32;
    fn dup2(a: i32, b: i32) -> i32;
    fn open(path: *const u8, flags: i32, ...) -> i32;
}

/// Sends the repository's own println!/eprintln! output to a sink and returns a handle on
/// the original stdout for the harness.
fn silence_repo_output() -> std::fs::File {
    use std::os::fd::FromRawFd;
    unsafe {
        let keep = dup(1);
        let null = open(b"/dev/null\0".as_ptr(), 1);
        dup2(null, 1);
        dup2(null, 2);
        std::fs::File::from_raw_fd(keep)
    }
}

thread_local! {
    pub static LAST_PANIC: std::cell::RefCell<Option<String>> = const { std::cell::RefCell::new(None) };
}

fn install_panic_hook() {
    std::panic::set_hook(Box::new(|info| {
        let loc = info.location().map(|l| format!("{}:{}", l.file(), l.line())).unwrap_or_default();
        let msg = if let Some(s) = info.payload().downcast_ref::<&str>() {
            s.to_string()
        } else if let Some(s) = info.payload().downcast_ref::<String>() {
            s.clone()
        } else {
            "(non-string payload)".to_string()
        };
        if world::my_task().is_some() {
            LAST_PANIC.with(|c| *c.borrow_mut() = Some(format!("{msg} @ {loc}")));
        } else {
            // a panic of the harness itself: make it visible on the saved stderr if any
            let _ = std::fs::OpenOptions::new().append(true).create(true).open("/dev/shm/tftpd-sim-harness-panics.log").and_then(|mut f| writeln!(f, "harness panic: {msg} @ {loc}"));
        }
    }));
}

fn arg_val(args: &[String], name: &str) -> Option<String> {
    args.iter().position(|a| a == name).and_then(|i| args.get(i + 1).cloned())
}

fn main() {
    let args: Vec<String> = std::env::args().collect();
    let cmd = args.get(1).map(|s| s.as_str()).unwrap_or("");
    match cmd {
        "run" => {
            let prop = run::static_prop(args.get(2).map(|s| s.as_str()).unwrap_or("")).expect("property");
            let runs: u64 = arg_val(&args, "--runs").and_then(|v| v.parse().ok()).unwrap_or(100);
            let start: u64 = arg_val(&args, "--start").and_then(|v| v.parse().ok()).unwrap_or(0);
            let seed: u64 = arg_val(&args, "--seed").and_then(|v| v.parse().ok()).unwrap_or(1);
            let tier = if args.iter().any(|a| a == "--thorough") { Tier::Thorough } else { Tier::Quick };
            let trace = args.iter().any(|a| a == "--trace");
            let stop = !args.iter().any(|a| a == "--keep-going");
            let mut out = silence_repo_output();
            install_panic_hook();
            let t0 = std::time::Instant::now();
            let mut viol = 0;
            let mut shapes = std::collections::BTreeSet::new();
            let mut faults: std::collections::BTreeMap<&str, u64> = Default::default();
            let mut probes: std::collections::BTreeMap<&str, u64> = Default::default();
            let mut rules: std::collections::BTreeMap<String, u64> = Default::default();
            let mut sim_ns: u128 = 0;
            for r in start..start + runs {
                let o = run::execute(prop, tier, Choices::search(run_seed(seed, prop, r)), trace);
                shapes.insert(o.stats.shape);
                sim_ns += o.sim_ns as u128;
                for (k, v) in &o.stats.faults {
                    *faults.entry(k).or_insert(0) += v;
                }
                for (k, v) in &o.probes {
                    *probes.entry(k).or_insert(0) += v;
                }
                if let Some(e) = &o.harness_error {
                    let _ = writeln!(out, "HARNESS-ERROR run={r}: {e}");
                }
                if trace && o.violation.is_none() {
                    let _ = writeln!(out, "--- run {r}: {} end={:?} steps={}", o.desc, o.end, o.stats.steps);
                    for l in o.trace.as_ref().unwrap() {
                        let _ = writeln!(out, "{l}");
                    }
                }
                if let Some(v) = &o.violation {
                    viol += 1;
                    *rules.entry(v.rule.clone()).or_insert(0) += 1;
                    if stop || trace {
                        let _ = writeln!(out, "VIOLATION run={r} rule={} : {}", v.rule, v.detail);
                        let _ = writeln!(out, "  scenario: {}", o.desc);
                        let o2 = run::execute(prop, tier, Choices::replay(o.choices.iter().map(|c| c.1).collect(), None), true);
                        for l in o2.trace.as_ref().unwrap().iter().rev().take(60).collect::<Vec<_>>().into_iter().rev() {
                            let _ = writeln!(out, "    {l}");
                        }
                        let _ = writeln!(out, "  replayed rule: {:?}", o2.violation.as_ref().map(|v| &v.rule));
                        if stop {
                            break;
                        }
                    }
                }
            }
            let dt = t0.elapsed().as_secs_f64();
            let _ = writeln!(out, "runs={runs} violations={viol} shapes={} wall={dt:.2}s ({:.0} runs/s) sim={:.0}s", shapes.len(), runs as f64 / dt, sim_ns as f64 / 1e9);
            let _ = writeln!(out, "faults={faults:?}");
            let _ = writeln!(out, "probes={probes:?}");
            let _ = writeln!(out, "rules={rules:?}");
            common::cleanup_process_sandbox();
        }
        _ => {
            eprintln!("usage: tftpd-sim run <PROP> [--runs N] [--seed S] [--start K] [--trace] [--keep-going]");
            std::process::exit(2);
        }
    }
}
