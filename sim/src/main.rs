#![allow(dead_code)]
mod alloc_cap;
mod choice;
mod common;
mod json;
mod peers;
mod proc;
mod rfc;
mod run;
mod scen;
mod scen_more;
mod scen_srv;
mod more_mon;
mod srv_mon;
mod world;
mod xfer_mon;

use choice::{run_seed, Choices};
use scen::Tier;
use std::io::Write;

extern "C" {
    fn sched_setaffinity(pid: i32, cpusetsize: usize, mask: *const u64) -> i32;
    fn dup(fd: i32) -> i32;
    fn dup2(a: i32, b: i32) -> i32;
    fn open(path: *const u8, flags: i32, ...) -> i32;
}

/// Sends the repository's own println!/eprintln! output to a sink and returns a handle on
/// the original stdout for the harness.
fn silence_repo_output() -> std::fs::File {
    use std::os::fd::FromRawFd;
    unsafe {
        let keep = dup(1);
        let null = open(b"/dev/null\0".as_ptr(), 1);
        dup2(null, 1);
        dup2(null, 2);
        std::fs::File::from_raw_fd(keep)
    }
}

/// Pins this process (and the threads it will spawn) to one CPU: the simulator runs one thread
/// at a time, so hand-offs on a single core are much cheaper than cross-core wake-ups.
fn pin_to_cpu(k: u64) {
    let ncpu = std::thread::available_parallelism().map(|n| n.get() as u64).unwrap_or(1);
    let cpu = k % ncpu;
    let mut mask = [0u64; 16];
    mask[(cpu / 64) as usize] = 1u64 << (cpu % 64);
    unsafe {
        sched_setaffinity(0, std::mem::size_of_val(&mask), mask.as_ptr());
    }
}

thread_local! {
    pub static LAST_PANIC: std::cell::RefCell<Option<String>> = const { std::cell::RefCell::new(None) };
}

fn install_panic_hook() {
    std::panic::set_hook(Box::new(|info| {
        let loc = info.location().map(|l| format!("{}:{}", l.file(), l.line())).unwrap_or_default();
        let msg = if let Some(s) = info.payload().downcast_ref::<&str>() {
            s.to_string()
        } else if let Some(s) = info.payload().downcast_ref::<String>() {
            s.clone()
        } else {
            "(non-string payload)".to_string()
        };
        if world::my_task().is_some() {
            LAST_PANIC.with(|c| *c.borrow_mut() = Some(format!("{msg} @ {loc}")));
        } else {
            // a panic of the harness itself: make it visible on the saved stderr if any
            let _ = std::fs::OpenOptions::new().append(true).create(true).open("/dev/shm/tftpd-sim-harness-panics.log").and_then(|mut f| writeln!(f, "harness panic: {msg} @ {loc}"));
            // a bug of the harness, not a verdict about the code under test: distinctive exit code
            if loc.contains("sim/src/") || loc.starts_with("src/") {
                std::process::exit(70);
            }
        }
    }));
}

fn arg_val(args: &[String], name: &str) -> Option<String> {
    let v = args.iter().position(|a| a == name).and_then(|i| args.get(i + 1).cloned());
    // path arguments are made absolute: simulating processes change their working directory
    if matches!(name, "--replay-dir" | "--evidence" | "--known" | "--ship" | "--chk") {
        return v.map(|p| abs(&p));
    }
    v
}

fn abs(p: &str) -> String {
    let pb = std::path::PathBuf::from(p);
    if pb.is_absolute() {
        p.to_string()
    } else {
        std::env::current_dir().map(|c| c.join(pb).to_string_lossy().into_owned()).unwrap_or_else(|_| p.to_string())
    }
}

fn main() {
    let args: Vec<String> = std::env::args().collect();
    let cmd = args.get(1).map(|s| s.as_str()).unwrap_or("");
    match cmd {
        "run" => {
            let prop = run::static_prop(args.get(2).map(|s| s.as_str()).unwrap_or("")).expect("property");
            let runs: u64 = arg_val(&args, "--runs").and_then(|v| v.parse().ok()).unwrap_or(100);
            let start: u64 = arg_val(&args, "--start").and_then(|v| v.parse().ok()).unwrap_or(0);
            let seed: u64 = arg_val(&args, "--seed").and_then(|v| v.parse().ok()).unwrap_or(1);
            let tier = if args.iter().any(|a| a == "--thorough") { Tier::Thorough } else { Tier::Quick };
            let trace = args.iter().any(|a| a == "--trace");
            let stop = !args.iter().any(|a| a == "--keep-going");
            let mut out = silence_repo_output();
            install_panic_hook();
            common::enter_process_base();
            pin_to_cpu(start);
            let t0 = std::time::Instant::now();
            let mut viol = 0;
            let mut shapes = std::collections::BTreeSet::new();
            let mut faults: std::collections::BTreeMap<&str, u64> = Default::default();
            let mut probes: std::collections::BTreeMap<&str, u64> = Default::default();
            let mut rules: std::collections::BTreeMap<String, u64> = Default::default();
            let mut sim_ns: u128 = 0;
            for r in start..start + runs {
                let o = run::execute(prop, tier, Choices::search_run(run_seed(seed, prop, r), r), trace);
                shapes.insert(o.stats.shape);
                sim_ns += o.sim_ns as u128;
                for (k, v) in &o.stats.faults {
                    *faults.entry(k).or_insert(0) += v;
                }
                for (k, v) in &o.probes {
                    *probes.entry(k).or_insert(0) += v;
                }
                if let Some(e) = &o.harness_error {
                    let _ = writeln!(out, "HARNESS-ERROR run={r}: {e}");
                }
                if trace && o.violation.is_none() {
                    let _ = writeln!(out, "--- run {r}: {} end={:?} steps={}", o.desc, o.end, o.stats.steps);
                    for l in o.trace.as_ref().unwrap() {
                        let _ = writeln!(out, "{l}");
                    }
                }
                if let Some(v) = &o.violation {
                    viol += 1;
                    *rules.entry(v.rule.clone()).or_insert(0) += 1;
                    if stop || trace {
                        let _ = writeln!(out, "VIOLATION run={r} rule={} : {}", v.rule, v.detail);
                        let _ = writeln!(out, "  scenario: {}", o.desc);
                        let o2 = run::execute(prop, tier, Choices::replay(o.choices.iter().map(|c| c.1).collect(), None), true);
                        let keep = if args.iter().any(|a| a == "--full") { usize::MAX } else { 60 };
                        for l in o2.trace.as_ref().unwrap().iter().rev().take(keep).collect::<Vec<_>>().into_iter().rev() {
                            let _ = writeln!(out, "    {l}");
                        }
                        let _ = writeln!(out, "  replayed rule: {:?}", o2.violation.as_ref().map(|v| &v.rule));
                        if stop {
                            break;
                        }
                    }
                }
            }
            let dt = t0.elapsed().as_secs_f64();
            let _ = writeln!(out, "runs={runs} violations={viol} shapes={} wall={dt:.2}s ({:.0} runs/s) sim={:.0}s", shapes.len(), runs as f64 / dt, sim_ns as f64 / 1e9);
            let _ = writeln!(out, "faults={faults:?}");
            let _ = writeln!(out, "probes={probes:?}");
            let _ = writeln!(out, "rules={rules:?}");
            common::cleanup_process_sandbox();
        }
        "worker" => {
            let prop = run::static_prop(args.get(2).map(|s| s.as_str()).unwrap_or("")).expect("property");
            let num = |n: &str, d: u64| arg_val(&args, n).and_then(|v| v.parse().ok()).unwrap_or(d);
            let a = proc::WorkerArgs {
                prop,
                tier: proc::parse_tier(&arg_val(&args, "--tier").unwrap_or_default()),
                seed: num("--seed", 1),
                start: num("--start", 0),
                stride: num("--stride", 1),
                end: num("--end", 100),
                deadline_s: arg_val(&args, "--deadline-s").and_then(|v| v.parse().ok()).unwrap_or(3600.0),
                replay_dir: arg_val(&args, "--replay-dir").unwrap_or_else(|| "/verif/replays".into()).into(),
                want_trace_sample: args.iter().any(|a| a == "--trace-sample"),
            };
            let mut out = silence_repo_output();
            install_panic_hook();
            common::enter_process_base();
            pin_to_cpu(a.start);
            proc::worker(a, &mut out);
        }
        "describe" => {
            let prop = run::static_prop(args.get(2).map(|s| s.as_str()).unwrap_or("")).expect("property");
            let num = |n: &str, d: u64| arg_val(&args, n).and_then(|v| v.parse().ok()).unwrap_or(d);
            let (seed, r) = (num("--seed", 1), num("--run", 0));
            let mut out = silence_repo_output();
            install_panic_hook();
            common::enter_process_base();
            let (desc, ch) = run::describe(prop, proc::parse_tier(&arg_val(&args, "--tier").unwrap_or_default()), Choices::search_run(run_seed(seed, prop, r), r));
            let _ = writeln!(out, "{desc}");
            let _ = writeln!(out, "{}", ch.iter().map(|(s, v)| format!("{s}={v}")).collect::<Vec<_>>().join(" "));
            common::cleanup_process_sandbox();
        }
        "fp" => {
            let prop = run::static_prop(args.get(2).map(|s| s.as_str()).unwrap_or("")).expect("property");
            let num = |n: &str, d: u64| arg_val(&args, n).and_then(|v| v.parse().ok()).unwrap_or(d);
            let mut out = silence_repo_output();
            install_panic_hook();
            common::enter_process_base();
            proc::fingerprints(prop, proc::parse_tier(&arg_val(&args, "--tier").unwrap_or_default()), num("--seed", 1), num("--start", 0), num("--end", 100), &mut out);
        }
        "check" => {
            let prop = run::static_prop(args.get(2).map(|s| s.as_str()).unwrap_or("")).expect("property");
            let tier = proc::parse_tier(&arg_val(&args, "--tier").unwrap_or_default());
            let num = |n: &str, d: u64| arg_val(&args, n).and_then(|v| v.parse().ok()).unwrap_or(d);
            let me = std::env::current_exe().expect("exe");
            let a = proc::CheckArgs {
                prop,
                tier,
                seed: num("--seed", 1),
                jobs: num("--jobs", 16),
                runs: num("--runs", 10_000),
                budget_s: arg_val(&args, "--budget-s").and_then(|v| v.parse().ok()).unwrap_or(3600.0),
                ship: arg_val(&args, "--ship").map(Into::into).unwrap_or_else(|| me.clone()),
                chk: arg_val(&args, "--chk").map(Into::into).unwrap_or_else(|| me.clone()),
                replay_dir: arg_val(&args, "--replay-dir").unwrap_or_else(|| "/verif/replays".into()).into(),
                evidence: arg_val(&args, "--evidence").unwrap_or_else(|| format!("/verif/evidence/{prop}.json")).into(),
                known: arg_val(&args, "--known").unwrap_or_else(|| "/verif/known_findings.json".into()).into(),
                level: arg_val(&args, "--level").unwrap_or_else(|| "exploration".into()),
            };
            std::process::exit(proc::check(a));
        }
        "replay" => {
            let path = std::path::PathBuf::from(abs(args.get(2).expect("replay file")));
            let ship = std::env::var("TFTPD_SIM_SHIP").ok().map(Into::into);
            let chk = std::env::var("TFTPD_SIM_CHK").ok().map(Into::into);
            let mut out = silence_repo_output();
            install_panic_hook();
            // proc::replay prints with println!, which now goes to the sink: restore stdout for it
            use std::os::fd::AsRawFd;
            unsafe {
                dup2(out.as_raw_fd(), 1);
            }
            let _ = out.flush();
            common::enter_process_base();
            let code = proc::replay(&path, ship, chk);
            common::cleanup_process_sandbox();
            std::process::exit(code);
        }
        "selftest" => {
            // determinism: the same seeds in different processes and different splits
            let me = std::env::current_exe().expect("exe");
            let props: Vec<&str> = arg_val(&args, "--props").map(|s| s.split(',').filter_map(run::static_prop).collect()).unwrap_or_else(|| run::implemented());
            let n: u64 = arg_val(&args, "--runs").and_then(|v| v.parse().ok()).unwrap_or(200);
            let fp = |prop: &str, start: u64, end: u64| -> Vec<String> {
                let o = std::process::Command::new(&me).args(["fp", prop, "--start", &start.to_string(), "--end", &end.to_string()]).output().expect("fp child");
                String::from_utf8_lossy(&o.stdout).lines().filter(|l| l.starts_with("F ")).map(|l| l.to_string()).collect()
            };
            let mut bad = 0;
            let mut total = 0;
            for prop in props {
                let n = if prop == "C15" { (n / 30).max(8) } else { n };
                let whole = fp(prop, 0, n);
                let mut parts: Vec<std::thread::JoinHandle<Vec<String>>> = vec![];
                for k in 0..8u64 {
                    let me2 = me.clone();
                    let prop2 = prop.to_string();
                    let (s, e) = (k * n / 8, (k + 1) * n / 8);
                    parts.push(std::thread::spawn(move || {
                        let o = std::process::Command::new(&me2).args(["fp", &prop2, "--start", &s.to_string(), "--end", &e.to_string()]).output().expect("fp child");
                        String::from_utf8_lossy(&o.stdout).lines().filter(|l| l.starts_with("F ")).map(|l| l.to_string()).collect()
                    }));
                }
                let mut split: Vec<String> = vec![];
                for p in parts {
                    split.extend(p.join().unwrap());
                }
                total += whole.len();
                if whole.is_empty() || whole != split {
                    bad += 1;
                    let diff = whole.iter().zip(split.iter()).filter(|(a, b)| a != b).count();
                    println!("DETERMINISM-FAIL {prop}: {} vs {} fingerprints, {diff} differ", whole.len(), split.len());
                    for (a, b) in whole.iter().zip(split.iter()).filter(|(a, b)| a != b).take(3) {
                        println!("   {a}  !=  {b}");
                    }
                } else {
                    println!("determinism ok {prop}: {} runs, 1 process vs 8 concurrent processes, identical fingerprints (choices, trace text, clock, verdict)", whole.len());
                }
            }
            println!("selftest determinism ({}): {total} runs compared, {bad} properties diverged", proc::profile_name());
            std::process::exit(if bad == 0 { 0 } else { 2 });
        }
        _ => {
            eprintln!("usage: tftpd-sim run|worker|check|replay|fp|selftest ...");
            std::process::exit(2);
        }
    }
}
