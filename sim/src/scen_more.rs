//! Scenarios: duplicate-packets mode (C16), cleanup of failed uploads (C13), isolation (C12),
//! bundled client vs server (C14), block-number wrap-around (C15).
use crate::common::{boot_server, content, content_with_zero_runs, Sandbox, ServerCfg};
use crate::more_mon::{ClientSpec, CsMon, CsResult, DupMon, FsMon, IsoMon, StaticMon, UploadSpec};
use crate::peers::{Adv, Reader, Scripted, Target, Writer, XferCfg};
use crate::rfc::{self, Pkt};
use crate::scen::{draw_len, draw_options, Draw, OptChoice, Scn, Tier, BLKSIZES};
use crate::world::{FaultCfg, Ns, Violation, World, MS, SEC, US};
use crate::xfer_mon::{Kind, Rules, XferMon, XferSpec};
use std::sync::{Arc, Mutex};

fn sb(w: &Arc<World>) -> Sandbox {
    let sandbox = Sandbox::new();
    w.lock().sb_root = sandbox.root.to_string_lossy().into_owned();
    sandbox
}

fn set_faults(w: &Arc<World>, fc: FaultCfg) {
    let mut g = w.lock();
    g.budget_left = fc.budget;
    g.cfg = fc;
}

// ------------------------------------------------------------------------------------------
// the bundled client as a simulated task
// ------------------------------------------------------------------------------------------

pub struct ClientPlan {
    pub upload: bool,
    pub v6: bool,
    pub port: u16,
    pub blksize: usize,
    pub windowsize: u64,
    pub timeout_s: u64,
    /// the file argument exactly as typed on the command line
    pub file_arg: String,
    pub receive_dir: std::path::PathBuf,
    pub keep_on_error: bool,
    /// `-i 0.0.0.0` / `-i ::` as in the README example: the local host answers from its loopback address
    pub wildcard_addr: bool,
}

pub fn spawn_client(w: &Arc<World>, p: &ClientPlan) -> Arc<Mutex<CsResult>> {
    let res = Arc::new(Mutex::new(CsResult { run_result: None }));
    let mut args: Vec<String> = vec![
        "-i".into(),
        match (p.v6, p.wildcard_addr) {
            (true, false) => "::1".into(),
            (false, false) => "127.0.0.1".into(),
            (true, true) => "::".into(),
            (false, true) => "0.0.0.0".into(),
        },
        "-p".into(),
        p.port.to_string(),
        "-b".into(),
        p.blksize.to_string(),
        "-w".into(),
        p.windowsize.to_string(),
        "-t".into(),
        p.timeout_s.to_string(),
        "-rd".into(),
        p.receive_dir.to_string_lossy().into_owned(),
    ];
    if p.keep_on_error {
        args.push("--keep-on-error".into());
    }
    args.push(if p.upload { "-u".into() } else { "-d".into() });
    args.push(p.file_arg.clone());
    let r2 = res.clone();
    w.spawn_task(move || {
        // give the server time to bind, like a user starting tftpc after tftpd
        tftpd::verif::thread::sleep(std::time::Duration::from_millis(10));
        let out = match tftpd::ClientConfig::new(args.into_iter()) {
            Ok(cfg) => match tftpd::Client::new(&cfg) {
                Ok(mut c) => c.run().map_err(|e| e.to_string()),
                Err(e) => Err(format!("Client::new: {e}")),
            },
            Err(e) => Err(format!("ClientConfig::new: {e}")),
        };
        r2.lock().unwrap().run_result = Some(out);
    });
    res
}

struct CsSetup {
    desc: String,
    mon: CsMon,
}

/// Builds a client/server pair; the server gets `dup` as --duplicate-packets.
fn client_server(d: &Draw, w: &Arc<World>, sandbox: &Sandbox, prop: &'static str, dup: Option<u64>, tier: Tier, allow_refusals: bool) -> CsSetup {
    let _ = prop;
    let srv_dir = sandbox.dir("srv");
    let cli_dir = sandbox.dir("cli");
    let src_dir = sandbox.dir("src");
    let mut srv = ServerCfg::new(&srv_dir);
    srv.single_port = d.chance("swarm.single_port", 1, 2);
    srv.v6 = d.chance("swarm.ipv6", 1, 4);
    if let Some(n) = dup {
        srv.dup = Some(n.to_string());
    }
    let upload = d.chance("swarm.kind.upload", 1, 2);
    let mut b = if d.chance("swarm.blksize.random", 1, 3) { 8 + d.range("swarm.blksize.value", 3000) as usize } else { d.pick("swarm.blksize.table", &BLKSIZES) };
    let wsz: u64 = if d.chance("swarm.windowsize.random", 1, 3) { 1 + d.range("swarm.windowsize.value", 40) as u64 } else { d.pick("swarm.windowsize.table", &[1u64, 2, 3, 4, 8, 16, 64, 65534, 65535]) };
    let tmo = d.pick("swarm.timeout.table", &[5u64, 1, 2, 30, 255]);
    let max_blocks = if dup.map_or(false, |n| n > 3) { 5 } else { 48 };
    let mut len = draw_len(d, b, wsz, max_blocks, 1 << 20);
    if dup.is_none() && d.chance("swarm.wrap_run", 1, if tier == Tier::Thorough { 300 } else { 1500 }) {
        // a transfer beyond 65535 blocks at blksize 8..9
        b = if b % 2 == 0 { 8 } else { 9 };
        len = 65536 * b + 3;
    }
    let refusal = if allow_refusals && d.chance("swarm.refusal", 1, 5) { 1 + d.range("swarm.refusal.kind", 4) } else { 0 };
    // names
    let nested = d.range("swarm.path.style", 4);
    // file names are passed through as typed: letter case, several dots, non-ASCII letters
    let base: &str = d.pick("swarm.path.base", &["file.bin", "Report_Q3.BIN", "file.bin", "data.tar.gz", "README", "\u{fc}bung.bin", "file.bin", "a b.bin"]);
    let data = Arc::new(if d.chance("swarm.content.zero_runs", 1, 8) { content_with_zero_runs(len, 21, b) } else { content(len, 21) });
    let (file_arg, server_path, client_path);
    if upload {
        // source file on the client side; stored under its basename in the server's receive directory
        let src = match nested {
            1 => {
                std::fs::create_dir_all(src_dir.join("deep/er")).unwrap();
                src_dir.join("deep/er").join(base)
            }
            _ => src_dir.join(base),
        };
        std::fs::write(&src, &*data).unwrap();
        // relative to the process working directory (common::enter_process_base), as a user would type it
        let s = src.strip_prefix(crate::common::process_base()).expect("sandbox under process base").to_string_lossy().into_owned();
        file_arg = match nested {
            2 => s.replace('/', "\\"),
            3 => format!("/{s}"),
            _ => s,
        };
        server_path = srv_dir.join(base);
        client_path = src.clone();
        if refusal == 0 && d.chance("swarm.upload.overwrites_existing", 1, 5) {
            // the server already holds a longer (or shorter) file of that name and --overwrite is on
            srv.overwrite = true;
            std::fs::write(&server_path, content(d.pick("swarm.upload.old_len", &[len + 900, len / 2, 3 * len + 11]), 93)).unwrap();
        }
        match refusal {
            1 => srv.read_only = true,
            2 => {
                std::fs::write(&server_path, b"already here").unwrap();
            }
            3 => srv.read_only = true,
            4 => {
                std::fs::write(&server_path, b"already here").unwrap();
            }
            _ => {}
        }
    } else {
        let rel = match nested {
            1 => format!("nested/Dir/{base}"),
            2 => format!("nested\\Dir\\{base}"),
            3 => format!("/{base}"),
            _ => base.to_string(),
        };
        let on_server = srv_dir.join(rel.replace('\\', "/").trim_start_matches('/'));
        std::fs::create_dir_all(on_server.parent().unwrap()).unwrap();
        if refusal != 1 && refusal != 3 {
            std::fs::write(&on_server, &*data).unwrap();
        }
        file_arg = match refusal {
            2 | 4 => format!("../{rel}"),
            _ => rel,
        };
        server_path = on_server;
        client_path = cli_dir.join(base);
        if refusal == 0 && d.chance("swarm.download.overwrites_existing", 1, 5) {
            // the client's receive directory already holds an older, longer copy
            std::fs::write(&client_path, content(d.pick("swarm.download.old_len", &[len + 900, len / 2, 3 * len + 11]), 94)).unwrap();
        }
    }
    let plan = ClientPlan { upload, v6: srv.v6, port: srv.port, blksize: b, windowsize: wsz, timeout_s: tmo, file_arg: file_arg.clone(), receive_dir: cli_dir.clone(), keep_on_error: d.chance("swarm.client.keep_on_error", 1, 3), wildcard_addr: d.chance("swarm.client.wildcard_addr", 1, 6) };
    let desc = format!(
        "client/server {} {} file_arg={:?} len={len} blksize={b} windowsize={wsz} timeout={tmo} refusal_kind={refusal}",
        srv.describe(),
        if upload { "upload" } else { "download" },
        file_arg.replace(&*sandbox.root.to_string_lossy(), "$SB")
    );
    let mut bystander = None;
    if d.chance("swarm.bystander", 1, 4) {
        let (bp, _spec) = crate::scen::add_bystander(d, w, &srv, &srv_dir);
        bystander = Some(bp);
    }
    boot_server(w, &srv).expect("server config");
    let result = spawn_client(w, &plan);
    if let Some((bp, at)) = bystander {
        w.start_peer_at(bp, at);
    }
    CsSetup { desc: desc.clone(), mon: CsMon { upload, expect_refusal: refusal != 0, content: data, server_path, client_path, client_dir: cli_dir, result, probes: Default::default(), desc } }
}

pub fn clientserver(tier: Tier, w: &Arc<World>) -> Scn {
    let d = Draw { w };
    let sandbox = sb(w);
    // the property has no fault quantifier: the network is clean, the interleaving of the four threads varies
    // Delays only reorder the threads; they are kept tiny so that even a 65 535-block window is
    // processed well inside the smallest timeout (no "slow node" fault is meant here).
    let fc = FaultCfg { sched_w: [6, 2, 2, 1, 1], sched_table: [0, US, 2 * US, 5 * US, 10 * US], ..Default::default() };
    set_faults(w, fc);
    let cs = client_server(&d, w, &sandbox, "C14", None, tier, true);
    let desc = cs.desc.clone();
    w.add_late_monitor(Box::new(cs.mon));
    Scn { sandbox, desc, step_cap: 6_000_000, time_cap: 100_000_000 * SEC, faultfree: true }
}

// ------------------------------------------------------------------------------------------
// C16
// ------------------------------------------------------------------------------------------

pub fn dupmode(tier: Tier, w: &Arc<World>) -> Scn {
    let d = Draw { w };
    let sandbox = sb(w);
    let mode = d.weighted("swarm.c16.mode", &[6, 1, 3]);
    if mode == 1 {
        // start-up validation of the flag
        let dir = sandbox.dir("srv");
        let val = d.pick("swarm.c16.flag", &["255", "256", "254", "0", "300", "-1", "3"]);
        let mut sc = ServerCfg::new(&dir);
        sc.dup = Some(val.to_string());
        let res = tftpd::Config::new(sc.args().into_iter());
        let should_fail = matches!(val, "255" | "256" | "300" | "-1");
        let v = match (&res, should_fail) {
            (Ok(_), true) => Some(Violation::new("C16", "C16.start_up_accepts_invalid_count", format!("--duplicate-packets {val} was accepted at start-up"))),
            (Err(e), false) => Some(Violation::new("C16", "C16.start_up_rejects_valid_count", format!("--duplicate-packets {val} was rejected: {e}"))),
            (Ok(c), false) if c.duplicate_packets.to_string() != val => Some(Violation::new("C16", "C16.start_up_wrong_count", format!("--duplicate-packets {val} parsed as {}", c.duplicate_packets))),
            _ => None,
        };
        w.add_monitor(Box::new(StaticMon { v }));
        return Scn { sandbox, desc: format!("start-up check --duplicate-packets {val}"), step_cap: 1000, time_cap: SEC, faultfree: true };
    }
    let n: u64 = d.pick("swarm.c16.n", &[1u64, 0, 2, 3, 254]);
    if mode == 2 {
        // monitors that attribute tasks must be in place before the first task is spawned
        w.add_monitor(Box::new(DupMon::new(n)));
        let cs = client_server(&d, w, &sandbox, "C16", Some(n), tier, false);
        let desc = format!("N={n} {}", cs.desc);
        let mut mon = cs.mon;
        mon.desc = desc.clone();
        w.add_late_monitor(Box::new(C16Cs(mon)));
        return Scn { sandbox, desc, step_cap: 6_000_000, time_cap: 100_000_000 * SEC, faultfree: true };
    }
    // model peer that acknowledges every copy
    let dir = sandbox.dir("srv");
    let mut srv = ServerCfg::new(&dir);
    srv.single_port = d.chance("swarm.single_port", 1, 2);
    srv.dup = Some(n.to_string());
    let upload = d.chance("swarm.kind.upload", 1, 2);
    let b = d.pick("swarm.blksize.table", &[512usize, 8, 9, 511, 1024, 1428]);
    let wsz = d.pick("swarm.windowsize.table", &[1u64, 2, 4, 8, 65535, 3]);
    let mut oc = OptChoice { opts: vec![], b: 512, w: 1, tmo_s: 5 };
    if d.chance("swarm.use_options", 4, 5) {
        oc.b = b;
        oc.w = wsz;
        oc.opts.push(("blksize".into(), b.to_string()));
        oc.opts.push(("windowsize".into(), wsz.to_string()));
        if d.chance("swarm.opt.timeout", 1, 2) {
            // with N = 254 a window of 4 takes longer to emit than a 1 s timeout
            oc.tmo_s = 1;
            oc.opts.push(("timeout".into(), "1".into()));
        }
    }
    let max_blocks = if n > 3 { 14 } else { 40 };
    let mut len = draw_len(&d, oc.b, oc.w, max_blocks, 1 << 18);
    let mut wrap_run = false;
    if upload && (1..=2).contains(&n) && d.chance("swarm.c16.wrap_run", 1, if tier == Tier::Thorough { 400 } else { 1200 }) {
        // the acknowledgement of the 65536th block is ACK(0): it is an acknowledgement of a data block too
        let wz = d.pick("swarm.c16.wrap.windowsize", &[128u64, 16, 4096, 64]);
        oc.opts = vec![("blksize".into(), "8".into()), ("windowsize".into(), wz.to_string())];
        oc.b = 8;
        oc.w = wz;
        oc.tmo_s = 5;
        len = (65536 + wz as usize) * 8 + 3;
        wrap_run = true;
    }
    let data = Arc::new(content(len, 9));
    let path = dir.join("data.bin");
    if !upload {
        std::fs::write(&path, &*data).unwrap();
    }
    let mut xc = XferCfg::new(srv.addr(), "data.bin");
    xc.opts = oc.opts.clone();
    xc.eager_reack = !d.chance("swarm.reader.lazy_reack", 1, 4);
    xc.per_block_ack = d.chance("swarm.reader.per_block_ack", 1, 4);
    if wrap_run {
        xc.eager_reack = false;
        xc.per_block_ack = false;
    }
    xc.resend_request = false;
    xc.timeout_ns = oc.tmo_s * SEC * 3;
    if upload && d.chance("swarm.close_when_done", 1, 3) {
        // like tftpc, atftp, curl: the client closes its socket as soon as it has the final ACK; on
        // loopback the server's remaining copies then bounce (ICMP port unreachable)
        xc.close_when_done = true;
        w.lock().icmp = true;
    }
    let mut fc = FaultCfg::default();
    if d.chance("swarm.net_dup", 1, 3) {
        // duplicates and reordering, and now and then a loss (a timeout retransmission is an emission too)
        fc.fate_w = [20, if d.chance("swarm.net_drop", 1, 2) { 2 } else { 0 }, 3, 1, 0, 0];
        fc.spare_requests = true;
        fc.after_first_data = true;
        fc.budget = 1 + d.range("swarm.fault.budget", 4);
    }
    if !upload && !oc.opts.is_empty() && d.chance("swarm.bad_oack_ack", 1, 12) {
        // a confused client acknowledges the OACK with a non-zero block number: the server complains once
        xc.bad_oack_ack = Some(d.pick("swarm.bad_oack_ack.k", &[5u16, 1, 65535]));
    }
    let faultfree = fc.budget == 0;
    set_faults(w, fc);
    let xc_bad_oack = xc.bad_oack_ack;
    let desc = format!("N={n} {} {} len={len} opts={:?} eager_reack={} per_block={} bad_oack_ack={:?}", srv.describe(), if upload { "upload" } else { "download" }, oc.opts, xc.eager_reack, xc.per_block_ack, xc_bad_oack);
    let kind = if upload { Kind::Upload } else { Kind::Download };
    // the same socket may come back for a second transfer of the same shape (same length, another name
    // for an upload; the same file for a download): nothing of the first one may linger in the server
    let again = !wrap_run && xc_bad_oack.is_none() && d.chance("swarm.c16.second_transfer", 1, 5);
    if again {
        // the socket stays open between the two transfers; the network faults belong to the first one
        xc.close_when_done = false;
        w.lock().cfg.until_ns = Some(3000 * SEC);
    }
    let mut xc2 = xc.clone();
    let (peer, client) = if upload { w.add_peer(Box::new(Writer::new(xc, data.to_vec())), false, 0) } else { w.add_peer(Box::new(Reader::new(xc)), false, 0) };
    // the peer's timer is three server timeouts long: one reordering can cost three failed receives
    let conformant = xc_bad_oack.is_none();
    let mut specs = vec![XferSpec { client, peer, kind, content: data.clone(), path: path.clone(), conformant, dally: true, timeout_ratio: 3 }];
    let mut second = None;
    if again {
        let data2 = Arc::new(content(len, 10));
        let path2 = if upload { dir.join("data2.bin") } else { path.clone() };
        if upload {
            xc2.file = "data2.bin".into();
        }
        let content2 = if upload { data2.clone() } else { data.clone() };
        let (p2, c2) = if upload { w.add_peer_on(Box::new(Writer::new(xc2, data2.to_vec())), peer) } else { w.add_peer_on(Box::new(Reader::new(xc2)), peer) };
        specs.push(XferSpec { client: c2, peer: p2, kind, content: content2, path: path2, conformant, dally: true, timeout_ratio: 3 });
        second = Some(p2);
    }
    let desc = format!("{desc} second_transfer_from_same_socket={again}");
    w.add_monitor(Box::new(DupMon::new(n)));
    w.add_monitor(Box::new(XferMon::new("C16", Rules { c01: true, c02: true, c04: true, c08: true, ..Default::default() }, specs, n)));
    boot_server(w, &srv).expect("server config");
    w.start_peer_at(peer, 10 * MS);
    if let Some(p2) = second {
        w.start_peer_at(p2, 4000 * SEC);
    }
    Scn { sandbox, desc, step_cap: if wrap_run { 12_000_000 } else { 3_000_000 }, time_cap: 100_000_000 * SEC, faultfree }
}

/// CsMon relabelled for C16 (content identical on both sides with duplicates in play).
struct C16Cs(CsMon);
impl crate::world::Monitor for C16Cs {
    fn on_event(&mut self, _w: &crate::world::Inner, _st: &crate::world::Stamp, _ev: &crate::world::Ev) -> Option<Violation> {
        None
    }
    fn at_end(&mut self, w: &crate::world::Inner, end: crate::world::EndReason) -> Option<Violation> {
        self.0.at_end(w, end).map(|mut v| {
            v.property = "C16".into();
            v.rule = v.rule.replace("C14.", "C16.client_server_");
            v
        })
    }
    fn probes(&self, out: &mut std::collections::BTreeMap<&'static str, u64>) {
        self.0.probes(out)
    }
    fn as_any(&self) -> &dyn std::any::Any {
        self
    }
}

// ------------------------------------------------------------------------------------------
// C13
// ------------------------------------------------------------------------------------------

pub fn cleanup(tier: Tier, w: &Arc<World>) -> Scn {
    let d = Draw { w };
    let sandbox = sb(w);
    let dir = sandbox.dir("srv");
    let mut srv = ServerCfg::new(&dir);
    srv.single_port = d.chance("swarm.single_port", 1, 3);
    srv.keep_on_error = d.chance("swarm.keep_on_error", 1, 3);
    srv.arg_rot = d.range("swarm.arg_rotation", 8) as usize;
    if d.chance("swarm.flag.duplicate_packets", 1, 8) {
        srv.dup = Some("1".into());
    }
    if d.chance("swarm.distinct_dirs", 1, 4) {
        // uploads go to `dir`: named by -rd next to a -d that is something else, or by -d next to a -sd
        if d.chance("swarm.dir_layout", 1, 2) {
            srv.send_dir = Some(sandbox.dir("pub"));
            srv.recv_dir = Some(dir.clone());
            srv.dir = sandbox.dir("base");
        } else {
            srv.send_dir = Some(sandbox.dir("pub"));
        }
    }
    let mode = d.weighted("swarm.c13.mode", &[5, 3, 2, 2, 1]);
    let oc = draw_options(&d, false, None);
    let max_blocks = if tier == Tier::Thorough { 40 } else { 24 };
    let len = draw_len(&d, oc.b, oc.w, max_blocks, 1 << 19).max(1);
    let nblocks = (len / oc.b) as u32 + 1;
    let data = Arc::new(content(len, 31));
    let mut fc = FaultCfg { scale_ns: oc.tmo_s * SEC, ..Default::default() };
    let mut specs = vec![];
    let mut desc;
    let mut starts: Vec<(usize, Ns)> = vec![];
    let srv_addr = srv.addr();
    let mk = |name: &str, oc: &OptChoice| {
        let mut xc = XferCfg::new(srv_addr, name);
        xc.opts = oc.opts.clone();
        for o in xc.opts.iter_mut() {
            if o.0 == "tsize" {
                o.1 = len.to_string();
            }
        }
        xc.timeout_ns = oc.tmo_s * SEC;
        xc.retries = 8;
        xc
    };
    match mode {
        0 => {
            // (i) one upload that fails at a chosen point, for a chosen reason
            let cause = d.range("swarm.c13.cause", 4);
            let mut xc = mk("up.bin", &oc);
            xc.resend_request = false;
            let step = 1 + d.range("swarm.c13.step", nblocks.min(30) + 1);
            match cause {
                0 => {
                    if d.chance("swarm.c13.die_mid_window", 1, 2) {
                        xc.die_after_blocks = Some(d.range("swarm.c13.die_after", nblocks.min(30) + 1) as u64);
                        if d.chance("swarm.c13.loss_before_death", 1, 2) {
                            // one block of the last window is lost on top: the survivors arrive out of sequence
                            fc.forced_nth = Some((d.range("swarm.c13.lost_datagram", 24) as u64, crate::world::Fate::Drop));
                        }
                    } else {
                        xc.script.push((step, Adv::Silent));
                    }
                    if d.chance("swarm.c13.icmp", 1, 2) {
                        w.lock().icmp = true;
                    }
                }
                1 => xc.script.push((step, Adv::ErrorText(d.range("swarm.c13.errcode", 8) as u16, d.range("swarm.c13.errtext", 6) as u8))),
                _ => {
                    fc.disk_w = 150;
                    fc.budget = 1;
                }
            }
            if d.chance("swarm.c13.preexisting", 1, 4) {
                srv.overwrite = true;
                std::fs::write(dir.join("up.bin"), content(2000, 77)).unwrap();
            }
            desc = format!("abort {} len={len} blocks={nblocks} opts={:?} cause={} step={step}", srv.describe(), oc.opts, ["silence", "error", "disk", "disk"][cause as usize]);
            let (p, c) = w.add_peer(Box::new(Writer::new(xc, data.to_vec())), false, 0);
            specs.push(UploadSpec { client: c, peer: p, content: data.clone(), name: None });
            starts.push((p, 10 * MS));
        }
        1 => {
            // (ii)a the first reply is lost, the client retransmits its WRQ
            srv.overwrite = d.chance("swarm.overwrite", 2, 3);
            let mut xc = mk("up.bin", &oc);
            xc.resend_request = true;
            fc.fate_w = [3, 2, 0, 0, 1, 0];
            fc.on_peer_sends = d.chance("swarm.c13.fault_peer_too", 1, 4);
            fc.budget = 1 + d.range("swarm.fault.budget", 2);
            fc.stall_w = if d.chance("swarm.fault.stall", 1, 2) { 120 } else { 0 };
            fc.sched_w = [4, 1, 1, 1, 1];
            desc = format!("retransmitted-WRQ {} len={len} opts={:?} budget={} stall_w={}", srv.describe(), oc.opts, fc.budget, fc.stall_w);
            let (p, c) = w.add_peer(Box::new(Writer::new(xc, data.to_vec())), false, 0);
            specs.push(UploadSpec { client: c, peer: p, content: data.clone(), name: None });
            starts.push((p, 10 * MS));
        }
        4 => {
            // (iv) an upload that completes; the client then tears down noisily (an ERROR to the transfer
            // endpoint after the final ACK). Completed is completed.
            let mut xc = mk("up.bin", &oc);
            xc.resend_request = false;
            xc.late_error = Some(d.pick("swarm.c13.late_error.code", &[0u16, 5, 3, 4]));
            xc.close_when_done = d.chance("swarm.c13.close_when_done", 1, 2);
            if d.chance("swarm.c13.icmp", 1, 2) {
                w.lock().icmp = true;
            }
            desc = format!("completed-then-late-ERROR {} len={len} opts={:?} code={:?}", srv.describe(), oc.opts, xc.late_error);
            let (p, c) = w.add_peer(Box::new(Writer::new(xc, data.to_vec())), false, 0);
            specs.push(UploadSpec { client: c, peer: p, content: data.clone(), name: None });
            starts.push((p, 10 * MS));
        }
        3 => {
            // (iii) one client socket, two names in a row: the first upload is abandoned, the next one
            // completes while the abandoned one's worker may still be waiting
            let mut xa = mk("a.bin", &oc);
            xa.resend_request = false;
            let step = 1 + d.range("swarm.c13.step", nblocks.min(30) + 1);
            xa.script.push((step, Adv::Silent));
            let mut xb = mk("b.bin", &oc);
            xb.resend_request = false;
            let data_b = Arc::new(content(len / 2 + 9, 33));
            for o in xb.opts.iter_mut() {
                if o.0 == "tsize" {
                    o.1 = data_b.len().to_string();
                }
            }
            let (pa, ca) = w.add_peer(Box::new(Writer::new(xa, data.to_vec())), false, 0);
            let (pb, cb) = w.add_peer_on(Box::new(Writer::new(xb, data_b.to_vec())), pa);
            specs.push(UploadSpec { client: ca, peer: pa, content: data.clone(), name: Some("a.bin") });
            specs.push(UploadSpec { client: cb, peer: pb, content: data_b, name: Some("b.bin") });
            let gap = d.pick("swarm.c13.second_start", &[SEC, 20 * MS, 3 * SEC, 12 * SEC, 40 * SEC]);
            desc = format!("one-socket-two-names {} len={len} opts={:?} a.bin abandoned at step {step}, b.bin starts after {} ms", srv.describe(), oc.opts, gap / MS);
            starts.push((pa, 10 * MS));
            starts.push((pb, 10 * MS + gap));
        }
        _ => {
            // (ii)b two clients, one name: the first stalls and dies, the second completes
            srv.overwrite = d.chance("swarm.overwrite", 3, 4);
            let mut xa = mk("up.bin", &oc);
            xa.resend_request = false;
            let step = 1 + d.range("swarm.c13.step", nblocks.min(30) + 1);
            xa.script.push((step, if d.chance("swarm.c13.a_errors", 1, 3) { Adv::Error(0, true) } else { Adv::Silent }));
            let mut xb = mk("up.bin", &oc);
            xb.resend_request = false;
            let b_is_refused = d.chance("swarm.c13.second_request_unhonourable", 1, 4);
            if b_is_refused {
                // the second request cannot be honoured (it is not accepted, no worker starts): the first
                // upload's failure is then an ordinary failed upload
                let (k, v) = d.pick("swarm.c13.bad_option", &[("blksize", "4"), ("windowsize", "0"), ("timeout", "0"), ("blksize", "70000")]);
                xb.opts.retain(|(n, _)| !n.eq_ignore_ascii_case(k));
                xb.opts.push((k.to_string(), v.to_string()));
                xb.retries = 1;
            }
            let data_b = Arc::new(content(len / 2 + 7, 32));
            let (pa, ca) = w.add_peer(Box::new(Writer::new(xa, data.to_vec())), false, 0);
            let (pb, cb) = w.add_peer(Box::new(Writer::new(xb, data_b.to_vec())), false, 0);
            specs.push(UploadSpec { client: ca, peer: pa, content: data.clone(), name: None });
            specs.push(UploadSpec { client: cb, peer: pb, content: data_b, name: None });
            let gap = d.pick("swarm.c13.second_start", &[20 * MS, 10 * MS + 50 * US, SEC, 3 * SEC, 40 * SEC]);
            desc = format!("two-clients-one-name {} len={len} opts={:?} A dies at step {step}, B starts after {} ms", srv.describe(), oc.opts, gap / MS);
            starts.push((pa, 10 * MS));
            starts.push((pb, 10 * MS + gap));
        }
    }
    desc = format!("cleanup {desc}");
    set_faults(w, fc);
    w.add_monitor(Box::new(FsMon::new(specs, srv.keep_on_error)));
    boot_server(w, &srv).expect("server config");
    for (p, at) in starts {
        w.start_peer_at(p, at);
    }
    Scn { sandbox, desc, step_cap: 600_000, time_cap: 100_000_000 * SEC, faultfree: false }
}

// ------------------------------------------------------------------------------------------
// C12
// ------------------------------------------------------------------------------------------

pub fn isolation(tier: Tier, w: &Arc<World>) -> Scn {
    let d = Draw { w };
    let sandbox = sb(w);
    let dir = sandbox.dir("srv");
    let mut srv = ServerCfg::new(&dir);
    srv.single_port = d.chance("swarm.single_port", 1, 2);
    srv.v6 = d.chance("swarm.ipv6", 1, 8);
    srv.keep_on_error = d.chance("swarm.flag.keep_on_error", 1, 6);
    srv.overwrite = d.chance("swarm.flag.overwrite", 1, 4);
    srv.arg_rot = d.range("swarm.arg_rotation", 8) as usize;
    if d.chance("swarm.flag.duplicate_packets", 1, 8) {
        srv.dup = Some("1".into());
    }
    let kmax = if tier == Tier::Thorough { 15 } else { 7 };
    let k = 2 + d.range("swarm.clients", kmax) as usize;
    let mut fc = FaultCfg::default();
    fc.fate_w = [12, 0, 2, 3, 0, 0];
    fc.spare_requests = true;
    fc.budget = d.range("swarm.fault.budget", 12);
    fc.sched_w = [5, 2, 2, 2, 1];
    let port_reuse = d.chance("swarm.port_reuse", 1, 3);
    w.lock().port_reuse = port_reuse;
    let mut clients = vec![];
    let mut xspecs = vec![];
    let mut starts = vec![];
    let mut desc = format!("isolation {} K={k} [", srv.describe());
    for i in 0..k {
        let upload = d.chance("swarm.kind.upload", 1, 2);
        let oc = draw_options(&d, true, None);
        let len = draw_len(&d, oc.b, oc.w, 24, 1 << 18);
        let data = Arc::new(if d.chance("swarm.content.zero_runs", 1, 10) { content_with_zero_runs(len, 200 + i as u64, oc.b) } else { content(len, 200 + i as u64) });
        // names may share a stem with a neighbour's (fw3.bin beside fw3.sig); several clients may fetch one file
        let mut name = format!("{}{}.{}", if upload { "u" } else { "f" }, if i > 0 && d.chance("swarm.name.shared_stem", 1, 4) { i - 1 } else { i }, if i % 2 == 0 { "bin" } else { "sig" });
        let mut data = data;
        let mut len = len;
        if !upload && d.chance("swarm.same_file_as_earlier_download", 1, 4) {
            if let Some(prev) = clients.iter().find(|c: &&ClientSpec| !c.upload) {
                name = prev.path.file_name().unwrap().to_string_lossy().into_owned();
                data = prev.content.clone();
                len = data.len();
            }
        }
        let path = dir.join(&name);
        if !upload {
            std::fs::write(&path, &*data).unwrap();
        }
        let mut xc = XferCfg::new(srv.addr(), &name);
        xc.opts = oc.opts.clone();
        for o in xc.opts.iter_mut() {
            if o.0 == "tsize" {
                o.1 = if upload { len.to_string() } else { "0".into() };
            }
        }
        xc.timeout_ns = oc.tmo_s * SEC;
        xc.resend_request = false;
        let (p, c) = if upload { w.add_peer(Box::new(Writer::new(xc, data.to_vec())), srv.v6, 0) } else { w.add_peer(Box::new(Reader::new(xc)), srv.v6, 0) };
        desc.push_str(&format!("{}{name}:{len}/{}x{} ", if upload { "U" } else { "D" }, oc.b, oc.w));
        clients.push(ClientSpec { client: c, peer: p, upload, content: data.clone(), path: path.clone() });
        xspecs.push(XferSpec { client: c, peer: p, kind: if upload { Kind::Upload } else { Kind::Download }, content: data, path, conformant: true, dally: true, timeout_ratio: 1 });
        starts.push((p, 10 * MS + d.range("swarm.client.start_us", 3000) as Ns * US));
    }
    desc.push(']');
    // some endpoints come back later for a second, different transfer (long after the first is over)
    let nre = d.range("swarm.reused_endpoints", 3) as usize;
    // ... and some of them again and again: a long session of one socket against one server
    let chain = if nre > 0 && d.chance("swarm.reuse.chain", 1, 3) { 1 + d.range("swarm.reuse.chain.len", 3) as usize } else { 0 };
    for jj in 0..(nre.min(k) + chain) {
        let j = jj.min(nre.min(k) - 1);
        let first = clients[j].peer;
        let upload = d.chance("swarm.reuse.upload", 1, 2);
        let oc = draw_options(&d, false, None);
        let len = draw_len(&d, oc.b, oc.w, 12, 1 << 17);
        let data = Arc::new(content(len, 300 + jj as u64));
        let name = format!("{}r{jj}.bin", if upload { "u" } else { "f" });
        let path = dir.join(&name);
        if !upload {
            std::fs::write(&path, &*data).unwrap();
        }
        let mut xc = XferCfg::new(srv.addr(), &name);
        xc.opts = oc.opts.clone();
        for o in xc.opts.iter_mut() {
            if o.0 == "tsize" {
                o.1 = if upload { len.to_string() } else { "0".into() };
            }
        }
        xc.timeout_ns = oc.tmo_s * SEC;
        xc.resend_request = false;
        let (p, c) = if upload { w.add_peer_on(Box::new(Writer::new(xc, data.to_vec())), first) } else { w.add_peer_on(Box::new(Reader::new(xc)), first) };
        desc.push_str(&format!(" again:{}{len}@peer{first}", if upload { "U" } else { "D" }));
        clients.push(ClientSpec { client: c, peer: p, upload, content: data.clone(), path: path.clone() });
        xspecs.push(XferSpec { client: c, peer: p, kind: if upload { Kind::Upload } else { Kind::Download }, content: data, path, conformant: true, dally: true, timeout_ratio: 1 });
        starts.push((p, 4000 * SEC * (1 + jj.saturating_sub(j)) as Ns + j as Ns * MS));
    }
    let mut abandoned_from: Vec<std::net::SocketAddr> = vec![];
    if srv.single_port && d.chance("swarm.live_predecessor", 1, 3) {
        // an endpoint abandons an upload (timeout 1 s: its worker gives up about 6 s later) and at once
        // starts a download that it reads slowly, so the predecessor dies in the middle of it
        let up = Arc::new(content(4000, 400));
        let mut xa = XferCfg::new(srv.addr(), "ua.bin");
        xa.opts = vec![("timeout".into(), "1".into())];
        xa.resend_request = false;
        xa.die_after_blocks = Some(1 + d.range("swarm.pred.die_after", 3) as u64);
        let (pa, ca) = w.add_peer(Box::new(Writer::new(xa, up.to_vec())), srv.v6, 0);
        let data = Arc::new(content(512 * 19 + 100, 401));
        let path = dir.join("fs.bin");
        std::fs::write(&path, &*data).unwrap();
        let mut xb = XferCfg::new(srv.addr(), "fs.bin");
        xb.resend_request = false;
        xb.think_ns = 450 * MS;
        xb.timeout_ns = 20 * SEC;
        let (pb, cb) = w.add_peer_on(Box::new(Reader::new(xb)), pa);
        abandoned_from.push(ca);
        clients.push(ClientSpec { client: cb, peer: pb, upload: false, content: data.clone(), path: path.clone() });
        xspecs.push(XferSpec { client: cb, peer: pb, kind: Kind::Download, content: data, path, conformant: true, dally: true, timeout_ratio: 1 });
        starts.push((pa, 12 * MS));
        starts.push((pb, 12 * MS + 100 * MS));
        desc.push_str(" +abandoned-upload-then-slow-download-from-one-endpoint");
    }
    // intruders
    let ni = d.range("swarm.intruders", 4) as usize;
    let mut intruders = vec![];
    for _ in 0..ni {
        let m = 1 + d.range("intruder.count", 6);
        let mut script = vec![];
        for _ in 0..m {
            let bytes = match d.range("intruder.kind", 5) {
                0 => rfc::encode(&Pkt::Ack(d.range("intruder.n", 6) as u16)),
                1 => rfc::encode(&Pkt::Data { n: 1 + d.range("intruder.n", 6) as u16, payload: vec![0x5a; d.pick("intruder.len", &[0usize, 8, 512, 100, 600, 1024, 2000])] }),
                2 => rfc::encode(&Pkt::Error { code: d.range("intruder.code", 8) as u16, msg: "intruder".into() }),
                3 => rfc::encode(&Pkt::Oack(vec![("blksize".into(), "8".into())])),
                _ => rfc::encode(&Pkt::Ack(65535)),
            };
            let target = if d.chance("intruder.to_transfer_port", 1, 2) { Target::TidOfPeer(clients[d.range("intruder.victim", k as u32) as usize].peer) } else { Target::Addr(srv.addr()) };
            let at = 10 * MS + d.range("intruder.at_us", 6000) as Ns * US;
            script.push((at, target, bytes));
        }
        let (p, a) = w.add_peer(Box::new(Scripted::new("intruder-datagram", script)), srv.v6, 0);
        intruders.push((p, a));
    }
    desc.push_str(&format!(" intruders={ni}"));
    let mut fifo_client = None;
    if d.chance("swarm.fifo_request", 1, 8) {
        // one more client asks for a named pipe that sits among the served files: opening it never
        // returns, which is that client's problem alone
        crate::world::make_fifo(&dir.join("pipe"));
        let at = 10 * MS + d.range("fifo.at_us", 4000) as Ns * US;
        let req = rfc::encode(&Pkt::Rrq { file: "pipe".into(), mode: "octet".into(), opts: if d.chance("fifo.options", 1, 2) { vec![("tsize".into(), "0".into())] } else { vec![] } });
        let (p, _) = w.add_peer(Box::new(Scripted::new("fifo-request", vec![(at, Target::Addr(srv.addr()), req)])), srv.v6, 0);
        fifo_client = Some(p);
        desc.push_str(" +request-for-a-named-pipe");
    }
    set_faults(w, fc);
    w.add_monitor(Box::new(XferMon::new("C12", Rules { c01: true, c02: true, ..Default::default() }, xspecs, 0)));
    let mut iso = IsoMon::new(clients, intruders.clone(), srv.addr(), srv.single_port);
    // the server may get round to that upload's first block only after the endpoint has moved on
    // (a busy single-port listener): the ACK it then sends is the answer to that endpoint's own DATA
    iso.abandoned_upload_from = abandoned_from;
    w.add_monitor(Box::new(iso));
    boot_server(w, &srv).expect("server config");
    for (p, at) in starts {
        w.start_peer_at(p, at);
    }
    for (p, _) in intruders {
        w.start_peer(p);
    }
    if let Some(p) = fifo_client {
        w.start_peer(p);
    }
    Scn { sandbox, desc, step_cap: 2_000_000, time_cap: 100_000_000 * SEC, faultfree: false }
}

// ------------------------------------------------------------------------------------------
// C15
// ------------------------------------------------------------------------------------------

pub fn wrap(_tier: Tier, w: &Arc<World>) -> Scn {
    let d = Draw { w };
    let sandbox = sb(w);
    let dir = sandbox.dir("srv");
    let mut srv = ServerCfg::new(&dir);
    srv.single_port = d.chance("swarm.single_port", 1, 3);
    let upload = d.chance("swarm.kind.upload", 1, 2);
    // one run in ten asks for no option at all: RFC 1350 lock-step with 512-byte blocks, 32 MiB and more
    let plain = d.chance("swarm.no_options", 1, 10);
    let b = if plain { 512 } else { d.pick("swarm.blksize.table", &[8usize, 9, 16]) };
    let wsz = if plain { 1 } else { d.pick("swarm.windowsize.table", &[16u64, 2, 3, 4, 7, 8, 64, 500, 1000, 4096, 65535, 65534, 21845]) };
    let blocks = if plain { d.pick("swarm.blocks.plain", &[65536u64, 65537, 65535, 65540]) } else { d.pick("swarm.blocks", &[65536u64, 65534, 65535, 65537, 65538, 65600, 70000, 131071, 131073]) };
    let rem = d.pick("swarm.len.rem", &[3usize, 0, 1, 7]);
    // `blocks` DATA blocks in total: (blocks-1) full ones and a final one of `rem` bytes
    let len = (blocks as usize - 1) * b + rem.min(b - 1);
    let data = Arc::new(content(len, 3));
    let path = dir.join("big.bin");
    if !upload {
        std::fs::write(&path, &*data).unwrap();
    }
    let mut xc = XferCfg::new(srv.addr(), "big.bin");
    xc.opts = vec![("blksize".into(), b.to_string()), ("windowsize".into(), wsz.to_string())];
    if plain {
        xc.opts.clear();
    }
    // the other options travel along as they would with a real client: the size announced for a
    // transfer beyond 65535 blocks, a timeout
    let with_tsize = !plain && d.chance("swarm.opt.tsize", 1, 2);
    if with_tsize {
        xc.opts.insert(d.range("swarm.opt.tsize.at", 3) as usize, ("tsize".into(), if upload { len.to_string() } else { "0".into() }));
    }
    if !plain && d.chance("swarm.opt.timeout", 1, 4) {
        xc.opts.push(("timeout".into(), "5".into()));
    }
    xc.resend_request = false;
    xc.gap_ack = !d.chance("swarm.reader.no_gap_ack", 1, 4);
    xc.per_block_ack = false;
    let mut fc = FaultCfg::default();
    let faultfree = d.chance("swarm.faultfree", 1, 4);
    if !faultfree {
        fc.fate_w = [10, 3, 2, 1, 0, 1];
        fc.budget = 1 + d.range("swarm.fault.budget", 4);
        fc.after_first_data = true;
        // stratified part: one or two faults forced onto the datagrams that carry the numbers around the wrap
        let nf = 1 + d.range("swarm.forced.count", 2);
        for _ in 0..nf {
            let op = if d.chance("swarm.forced.ack", 1, 2) { 4u8 } else { 3u8 };
            let num = d.pick("swarm.forced.number", &[0u16, 65535, 1, 65534, 2]);
            let fate = if d.chance("swarm.forced.dup", 1, 3) { crate::world::Fate::Dup } else { crate::world::Fate::Drop };
            fc.forced.push((op, num, fate));
        }
    }
    {
        let mut g = w.lock();
        g.budget_left = fc.budget;
        g.cfg = fc;
        // faults only in the windows around the wrap
        g.wrap_gate = Some(2 * wsz.min(2000) + 8);
    }
    let desc = format!("wrap {} {} blocks={blocks} blksize={b} windowsize={wsz} len={len} tsize={with_tsize} no_options={plain} faultfree={faultfree}", srv.describe(), if upload { "upload" } else { "download" });
    let kind = if upload { Kind::Upload } else { Kind::Download };
    let (peer, client) = if upload { w.add_peer(Box::new(Writer::new(xc, data.to_vec())), false, 0) } else { w.add_peer(Box::new(Reader::new(xc)), false, 0) };
    let spec = XferSpec { client, peer, kind, content: data, path, conformant: true, dally: true, timeout_ratio: 1 };
    w.add_monitor(Box::new(XferMon::new("C15", Rules { c01: true, c02: true, c04: true, ..Default::default() }, vec![spec], 0)));
    boot_server(w, &srv).expect("server config");
    w.start_peer_at(peer, 10 * MS);
    Scn { sandbox, desc, step_cap: 30_000_000, time_cap: 100_000_000 * SEC, faultfree }
}
