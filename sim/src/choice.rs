//! The one choice stream that decides everything: a seeded PRNG in search mode, a
//! recorded list in replay mode. Index 0 is always the benign option.

#[derive(Clone)]
pub struct Rng {
    s: [u64; 4],
}

fn splitmix(x: &mut u64) -> u64 {
    *x = x.wrapping_add(0x9E3779B97F4A7C15);
    let mut z = *x;
    z = (z ^ (z >> 30)).wrapping_mul(0xBF58476D1CE4E5B9);
    z = (z ^ (z >> 27)).wrapping_mul(0x94D049BB133111EB);
    z ^ (z >> 31)
}

impl Rng {
    pub fn new(seed: u64) -> Rng {
        let mut x = seed;
        Rng {
            s: [splitmix(&mut x), splitmix(&mut x), splitmix(&mut x), splitmix(&mut x)],
        }
    }
    pub fn next(&mut self) -> u64 {
        let r = self.s[1].wrapping_mul(5).rotate_left(7).wrapping_mul(9);
        let t = self.s[1] << 17;
        self.s[2] ^= self.s[0];
        self.s[3] ^= self.s[1];
        self.s[1] ^= self.s[2];
        self.s[0] ^= self.s[3];
        self.s[2] ^= t;
        self.s[3] = self.s[3].rotate_left(45);
        r
    }
    pub fn below(&mut self, n: u64) -> u64 {
        if n <= 1 {
            0
        } else {
            self.next() % n
        }
    }
}

pub fn fnv(data: &[u8]) -> u64 {
    let mut h: u64 = 0xcbf29ce484222325;
    for b in data {
        h ^= *b as u64;
        h = h.wrapping_mul(0x100000001b3);
    }
    h
}

pub fn mix(h: u64, v: u64) -> u64 {
    let mut x = h ^ v.wrapping_mul(0x9E3779B97F4A7C15);
    x = (x ^ (x >> 32)).wrapping_mul(0xD6E8FEB86659FD93);
    x ^ (x >> 29)
}

pub fn run_seed(verif_seed: u64, property: &str, run: u64) -> u64 {
    mix(mix(verif_seed, fnv(property.as_bytes())), run)
}

pub enum Mode {
    Search(Rng),
    Replay { list: Vec<u32>, pos: usize, sites: Option<Vec<String>> },
}

pub struct Choices {
    /// search mode: the run number, consumed digit by digit by `enumerate` (deterministic strata)
    pub run_index: Option<u64>,
    mode: Mode,
    pub log: Vec<(&'static str, u32)>,
    /// first strict-replay site mismatch (harness error, not a verdict)
    pub mismatch: Option<String>,
    /// replay consumed more entries than the list holds (allowed while shrinking)
    pub overrun: bool,
}

impl Choices {
    pub fn search(seed: u64) -> Choices {
        Choices { run_index: None, mode: Mode::Search(Rng::new(seed)), log: Vec::new(), mismatch: None, overrun: false }
    }
    pub fn replay(list: Vec<u32>, sites: Option<Vec<String>>) -> Choices {
        Choices { run_index: None, mode: Mode::Replay { list, pos: 0, sites }, log: Vec::new(), mismatch: None, overrun: false }
    }

    /// Weighted choice. With at most one positive weight nothing is drawn or recorded.
    pub fn choose(&mut self, site: &'static str, weights: &[u32]) -> usize {
        let mut nz = 0;
        let mut first = 0;
        for (i, w) in weights.iter().enumerate() {
            if *w > 0 {
                if nz == 0 {
                    first = i;
                }
                nz += 1;
            }
        }
        if nz <= 1 {
            return first;
        }
        let idx = match &mut self.mode {
            Mode::Search(r) => {
                let total: u64 = weights.iter().map(|w| *w as u64).sum();
                let mut x = r.below(total);
                let mut k = 0;
                for (i, w) in weights.iter().enumerate() {
                    if x < *w as u64 {
                        k = i;
                        break;
                    }
                    x -= *w as u64;
                }
                k
            }
            Mode::Replay { list, pos, sites } => {
                let at = *pos;
                *pos += 1;
                if let Some(s) = sites {
                    if let Some(want) = s.get(at) {
                        if want != site && self.mismatch.is_none() {
                            self.mismatch = Some(format!("choice #{at}: file says site '{want}', run asks '{site}'"));
                        }
                    }
                }
                match list.get(at) {
                    Some(v) => {
                        let v = *v as usize;
                        if v < weights.len() && weights[v] > 0 {
                            v
                        } else {
                            first
                        }
                    }
                    None => {
                        self.overrun = true;
                        first
                    }
                }
            }
        };
        self.log.push((site, idx as u32));
        idx
    }

    /// Uniform value in 0..n (n >= 1); 0 is the default.
    pub fn range(&mut self, site: &'static str, n: u32) -> u32 {
        if n <= 1 {
            return 0;
        }
        let v = match &mut self.mode {
            Mode::Search(r) => r.below(n as u64) as u32,
            Mode::Replay { list, pos, sites } => {
                let at = *pos;
                *pos += 1;
                if let Some(s) = sites {
                    if let Some(want) = s.get(at) {
                        if want != site && self.mismatch.is_none() {
                            self.mismatch = Some(format!("choice #{at}: file says site '{want}', run asks '{site}'"));
                        }
                    }
                }
                match list.get(at) {
                    Some(v) if *v < n => *v,
                    Some(_) => 0,
                    None => {
                        self.overrun = true;
                        0
                    }
                }
            }
        };
        self.log.push((site, v));
        v
    }

    pub fn search_run(seed: u64, run: u64) -> Choices {
        let mut c = Choices::search(seed);
        c.run_index = Some(run);
        c
    }

    /// Enumerated value in 0..n: in search mode the next mixed-radix digit of the run number (so a
    /// batch of consecutive runs walks the whole product space), recorded like any other choice.
    pub fn enumerate(&mut self, site: &'static str, n: u32) -> u32 {
        if n <= 1 {
            return 0;
        }
        let v = match &mut self.mode {
            Mode::Search(r) => match &mut self.run_index {
                Some(ix) => {
                    let v = (*ix % n as u64) as u32;
                    *ix /= n as u64;
                    v
                }
                None => r.below(n as u64) as u32,
            },
            Mode::Replay { .. } => return self.range(site, n),
        };
        self.log.push((site, v));
        v
    }

    pub fn pick<T: Copy>(&mut self, site: &'static str, items: &[T]) -> T {
        items[self.range(site, items.len() as u32) as usize]
    }

    pub fn values(&self) -> Vec<u32> {
        self.log.iter().map(|(_, v)| *v).collect()
    }
}
