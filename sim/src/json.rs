//! Minimal JSON value, writer and parser (no third-party crates in the harness).
use std::collections::BTreeMap;
use std::fmt::Write;

#[derive(Clone, Debug, PartialEq)]
pub enum J {
    Null,
    Bool(bool),
    Int(i64),
    Num(f64),
    Str(String),
    Arr(Vec<J>),
    Obj(BTreeMap<String, J>),
}

impl J {
    pub fn obj() -> J {
        J::Obj(BTreeMap::new())
    }
    pub fn set(&mut self, k: &str, v: J) -> &mut J {
        if let J::Obj(m) = self {
            m.insert(k.to_string(), v);
        }
        self
    }
    pub fn with(mut self, k: &str, v: J) -> J {
        self.set(k, v);
        self
    }
    pub fn get(&self, k: &str) -> Option<&J> {
        match self {
            J::Obj(m) => m.get(k),
            _ => None,
        }
    }
    pub fn as_str(&self) -> Option<&str> {
        match self {
            J::Str(s) => Some(s),
            _ => None,
        }
    }
    pub fn as_i64(&self) -> Option<i64> {
        match self {
            J::Int(i) => Some(*i),
            J::Num(f) => Some(*f as i64),
            _ => None,
        }
    }
    pub fn as_arr(&self) -> Option<&Vec<J>> {
        match self {
            J::Arr(a) => Some(a),
            _ => None,
        }
    }
    pub fn s(v: impl Into<String>) -> J {
        J::Str(v.into())
    }
    pub fn i(v: impl TryInto<i64>) -> J {
        J::Int(v.try_into().unwrap_or(i64::MAX))
    }

    pub fn dump(&self) -> String {
        let mut out = String::new();
        self.write(&mut out, 0, true);
        out.push('\n');
        out
    }
    pub fn compact(&self) -> String {
        let mut out = String::new();
        self.write(&mut out, 0, false);
        out
    }

    fn write(&self, out: &mut String, ind: usize, pretty: bool) {
        match self {
            J::Null => out.push_str("null"),
            J::Bool(b) => out.push_str(if *b { "true" } else { "false" }),
            J::Int(i) => {
                let _ = write!(out, "{i}");
            }
            J::Num(f) => {
                if f.is_finite() {
                    let _ = write!(out, "{f}");
                    if f.fract() == 0.0 && !out.ends_with(|c: char| c == 'e' || c == '.') && !format!("{f}").contains('.') && !format!("{f}").contains('e') {
                        out.push_str(".0");
                    }
                } else {
                    out.push_str("null");
                }
            }
            J::Str(s) => write_str(out, s),
            J::Arr(a) => {
                // arrays of scalars stay on one line
                let scalar = a.iter().all(|x| !matches!(x, J::Arr(_) | J::Obj(_)));
                out.push('[');
                for (k, v) in a.iter().enumerate() {
                    if k > 0 {
                        out.push(',');
                    }
                    if pretty && !scalar {
                        out.push('\n');
                        out.push_str(&" ".repeat(ind + 1));
                    } else if pretty && k > 0 {
                        out.push(' ');
                    }
                    v.write(out, ind + 1, pretty);
                }
                if pretty && !scalar && !a.is_empty() {
                    out.push('\n');
                    out.push_str(&" ".repeat(ind));
                }
                out.push(']');
            }
            J::Obj(m) => {
                out.push('{');
                for (k, (key, v)) in m.iter().enumerate() {
                    if k > 0 {
                        out.push(',');
                    }
                    if pretty {
                        out.push('\n');
                        out.push_str(&" ".repeat(ind + 1));
                    }
                    write_str(out, key);
                    out.push(':');
                    if pretty {
                        out.push(' ');
                    }
                    v.write(out, ind + 1, pretty);
                }
                if pretty && !m.is_empty() {
                    out.push('\n');
                    out.push_str(&" ".repeat(ind));
                }
                out.push('}');
            }
        }
    }
}

fn write_str(out: &mut String, s: &str) {
    out.push('"');
    for c in s.chars() {
        match c {
            '"' => out.push_str("\\\""),
            '\\' => out.push_str("\\\\"),
            '\n' => out.push_str("\\n"),
            '\r' => out.push_str("\\r"),
            '\t' => out.push_str("\\t"),
            c if (c as u32) < 0x20 => {
                let _ = write!(out, "\\u{:04x}", c as u32);
            }
            c => out.push(c),
        }
    }
    out.push('"');
}

pub fn parse(s: &str) -> Result<J, String> {
    let b = s.as_bytes();
    let mut p = 0usize;
    let v = parse_val(b, &mut p)?;
    skip_ws(b, &mut p);
    if p != b.len() {
        return Err(format!("trailing data at {p}"));
    }
    Ok(v)
}

fn skip_ws(b: &[u8], p: &mut usize) {
    while *p < b.len() && (b[*p] as char).is_ascii_whitespace() {
        *p += 1;
    }
}

fn parse_val(b: &[u8], p: &mut usize) -> Result<J, String> {
    skip_ws(b, p);
    if *p >= b.len() {
        return Err("unexpected end".into());
    }
    match b[*p] {
        b'n' => lit(b, p, "null", J::Null),
        b't' => lit(b, p, "true", J::Bool(true)),
        b'f' => lit(b, p, "false", J::Bool(false)),
        b'"' => Ok(J::Str(parse_str(b, p)?)),
        b'[' => {
            *p += 1;
            let mut a = vec![];
            loop {
                skip_ws(b, p);
                if *p < b.len() && b[*p] == b']' {
                    *p += 1;
                    return Ok(J::Arr(a));
                }
                a.push(parse_val(b, p)?);
                skip_ws(b, p);
                match b.get(*p) {
                    Some(b',') => *p += 1,
                    Some(b']') => {
                        *p += 1;
                        return Ok(J::Arr(a));
                    }
                    _ => return Err(format!("bad array at {p}")),
                }
            }
        }
        b'{' => {
            *p += 1;
            let mut m = BTreeMap::new();
            loop {
                skip_ws(b, p);
                if *p < b.len() && b[*p] == b'}' {
                    *p += 1;
                    return Ok(J::Obj(m));
                }
                let k = parse_str(b, p)?;
                skip_ws(b, p);
                if b.get(*p) != Some(&b':') {
                    return Err(format!("expected ':' at {p}"));
                }
                *p += 1;
                let v = parse_val(b, p)?;
                m.insert(k, v);
                skip_ws(b, p);
                match b.get(*p) {
                    Some(b',') => *p += 1,
                    Some(b'}') => {
                        *p += 1;
                        return Ok(J::Obj(m));
                    }
                    _ => return Err(format!("bad object at {p}")),
                }
            }
        }
        _ => {
            let st = *p;
            while *p < b.len() && matches!(b[*p], b'-' | b'+' | b'.' | b'e' | b'E' | b'0'..=b'9') {
                *p += 1;
            }
            let t = std::str::from_utf8(&b[st..*p]).map_err(|e| e.to_string())?;
            if let Ok(i) = t.parse::<i64>() {
                Ok(J::Int(i))
            } else {
                t.parse::<f64>().map(J::Num).map_err(|e| format!("bad number {t}: {e}"))
            }
        }
    }
}

fn lit(b: &[u8], p: &mut usize, w: &str, v: J) -> Result<J, String> {
    if b[*p..].starts_with(w.as_bytes()) {
        *p += w.len();
        Ok(v)
    } else {
        Err(format!("bad literal at {p}"))
    }
}

fn parse_str(b: &[u8], p: &mut usize) -> Result<String, String> {
    if b.get(*p) != Some(&b'"') {
        return Err(format!("expected string at {p}"));
    }
    *p += 1;
    let mut out = Vec::new();
    while *p < b.len() {
        match b[*p] {
            b'"' => {
                *p += 1;
                return String::from_utf8(out).map_err(|e| e.to_string());
            }
            b'\\' => {
                *p += 1;
                match b.get(*p) {
                    Some(b'n') => out.push(b'\n'),
                    Some(b'r') => out.push(b'\r'),
                    Some(b't') => out.push(b'\t'),
                    Some(b'b') => out.push(8),
                    Some(b'f') => out.push(12),
                    Some(b'/') => out.push(b'/'),
                    Some(b'\\') => out.push(b'\\'),
                    Some(b'"') => out.push(b'"'),
                    Some(b'u') => {
                        let h = std::str::from_utf8(b.get(*p + 1..*p + 5).ok_or("short \\u")?).map_err(|e| e.to_string())?;
                        let c = u32::from_str_radix(h, 16).map_err(|e| e.to_string())?;
                        let ch = char::from_u32(c).unwrap_or('\u{fffd}');
                        let mut buf = [0u8; 4];
                        out.extend_from_slice(ch.encode_utf8(&mut buf).as_bytes());
                        *p += 4;
                    }
                    _ => return Err("bad escape".into()),
                }
                *p += 1;
            }
            c => {
                out.push(c);
                *p += 1;
            }
        }
    }
    Err("unterminated string".into())
}
